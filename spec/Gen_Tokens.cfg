SPECIFICATION SpecTok
INVARIANT TotalOnTokens
INVARIANT GenTokens
CHECK_DEADLOCK FALSE
