SPECIFICATION Spec
CONSTANTS MaxId = 3
  LeafLen = 1
INVARIANT Inv
CHECK_DEADLOCK FALSE
