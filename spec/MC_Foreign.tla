------------------------------ MODULE MC_Foreign ------------------------------
(***************************************************************************)
(* Generator of spec-valid archive layouts "from another writer" (C03):    *)
(* every section order, gap pattern, tree shape, entry pattern and         *)
(* metadata form is one initial state; GenForeign prints the abstract      *)
(* layout together with the content it addresses (exp), one JSON line per  *)
(* state.  The harness' assembler turns a layout into bytes; the bytes go  *)
(* back through Archive!WellFormed before the library sees them.           *)
(* The invariant LayoutOK states what makes the layout spec-valid.         *)
(***************************************************************************)
EXTENDS Integers, Sequences, FiniteSets, TLC, Json
U  == INSTANCE U64
D  == INSTANCE Directory
DT == INSTANCE DirTree

N(n) == U!FromNat(n)
T(id, run, len, off) == D!Entry(N(id), N(run), N(len), N(off))

Patterns == <<
  \* 1 singletons, contiguous data
  << T(0,1,3,0), T(1,1,4,3), T(2,1,1,7), T(5,1,2,8), T(9,1,5,10) >>,
  \* 2 runs >= 2
  << T(1,3,4,0), T(10,2,2,4), T(20,1,6,6), T(21,300,1,12) >>,
  \* 3 shared offsets (deduplicated, not adjacent)
  << T(3,1,5,0), T(4,1,2,5), T(7,1,5,0), T(8,2,2,5), T(100,1,5,0) >>,
  \* 4 back references and decreasing offsets
  << T(2,1,3,20), T(3,1,4,10), T(6,2,5,0), T(30,1,3,20), T(31,1,2,5) >>,
  \* 5 unordered offsets with gaps and overlapping ranges, large IDs
  << T(0,1,8,40), T(1,1,8,44), T(1000,1,1,0), D!Entry(<<0, 1, 0, 0>>, N(2), N(7), N(100)),
     D!Entry(<<21845, 21845, 21845, 21840>>, N(5), N(3), N(9)) >>,
  \* 6 empty archive
  << >>
>>
Orders == { <<a, b, c, d>> : a \in 0..3, b \in 0..3, c \in 0..3, d \in 0..3 }
Perms == { o \in Orders : Cardinality({o[1], o[2], o[3], o[4]}) = 4 }
Shapes == {"root", "leaves", "nested", "mixed"}

VARIABLE g
Init == \E o \in Perms : \E gap \in 0..2 : \E sh \in Shapes : \E p \in 1..Len(Patterns) : \E m \in {"empty", "obj"} :
          \E sp \in 1..2 :
          g = [order |-> o, gap |-> gap, shape |-> sh, pat |-> p, tiles |-> Patterns[p], meta |-> m, split |-> sp]
Next == UNCHANGED g
Spec == Init /\ [][Next]_g

LayoutOK == D!ValidDir(g.tiles) /\ \A i \in 1..Len(g.tiles) : ~D!IsLeafPtr(g.tiles[i])

GenForeign == PrintT(<<"STIM", ToJson([order |-> g.order, gap |-> g.gap, shape |-> g.shape, pat |-> g.pat,
                                       tiles |-> g.tiles, meta |-> g.meta, split |-> g.split])>>)
=============================================================================
