SPECIFICATION Spec
CONSTANT NIds = 4
INVARIANT Inv
PROPERTY RejectedIsStutter
CHECK_DEADLOCK FALSE
