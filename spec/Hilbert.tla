------------------------------- MODULE Hilbert -------------------------------
(***************************************************************************)
(* PMTiles v3 tile IDs: all tiles of zoom z occupy the contiguous block    *)
(* [Base(z), Base(z+1)) with Base(z) = (4^z - 1)/3, ordered inside the     *)
(* block along the Hilbert curve of order z.                               *)
(*                                                                         *)
(* Two formulations:                                                       *)
(*  - Lit*: a literal transcription of the reference rotate/flip           *)
(*    algorithm published with the specification (xy -> d and d -> xy),    *)
(*    on bit vectors;                                                      *)
(*  - Tr*: an orientation transducer (2 booleans of state), linear in z.   *)
(* MC_Hilbert checks Lit = Tr exhaustively for small zooms and the         *)
(* structural theorems; trace validation uses Tr.                          *)
(* IDs are U64 limb tuples; x, y are TLC ints (< 2^31) inside the grid.    *)
(***************************************************************************)
EXTENDS Naturals, Sequences
LOCAL INSTANCE SequencesExt
U == INSTANCE U64

MaxZoom == 31

P2T == <<1, 2, 4, 8, 16, 32, 64, 128, 256, 512, 1024, 2048, 4096, 8192, 16384, 32768,
         65536, 131072, 262144, 524288, 1048576, 2097152, 4194304, 8388608, 16777216,
         33554432, 67108864, 134217728, 268435456, 536870912, 1073741824>>
Pow2(n) == P2T[n + 1]                         \* n in 0..30

\* grid side is 2^z; for z = 31 the side does not fit a TLC int, so test by bits
InGrid(z, x, y) == /\ z \in 0..MaxZoom /\ x >= 0 /\ y >= 0
                   /\ (z <= 30 => x < Pow2(z) /\ y < Pow2(z))

\* bit i (1 = most significant of z bits) of v, 0 <= v < 2^z
Bit(v, z, i) == (v \div Pow2(z - i)) % 2
Bits(v, z)   == [i \in 1..z |-> Bit(v, z, i)]

(***************************************************************************)
(* base-4 digit strings (most significant first) -> limbs                   *)
(***************************************************************************)
P4 == <<16384, 4096, 1024, 256, 64, 16, 4, 1>>      \* 4^(8-t), t = 1..8
DigitsToU64(d) ==                 \* Len(d) <= 32
  LET z == Len(d)
      D(k) == IF k <= 32 - z THEN 0 ELSE d[k - (32 - z)]
      Limb(m) == D(8*(m-1)+1) * P4[1] + D(8*(m-1)+2) * P4[2] + D(8*(m-1)+3) * P4[3]
               + D(8*(m-1)+4) * P4[4] + D(8*(m-1)+5) * P4[5] + D(8*(m-1)+6) * P4[6]
               + D(8*(m-1)+7) * P4[7] + D(8*(m-1)+8) * P4[8]
  IN <<Limb(1), Limb(2), Limb(3), Limb(4)>>

\* digit k (1 = most significant of 32) of a U64
DigitOf(a, k) == LET m == ((k - 1) \div 8) + 1    t == ((k - 1) % 8) + 1
                 IN (a[m] \div P4[t]) % 4
U64ToDigits(a, z) == [i \in 1..z |-> DigitOf(a, 32 - z + i)]

\* first ID of zoom z: (4^z - 1)/3 = z base-4 digits "1";  z in 0..32
Base(z) == DigitsToU64([i \in 1..z |-> 1])
ZoomCount(z) == DigitsToU64([i \in 1..(z + 1) |-> IF i = 1 THEN 1 ELSE 0])    \* 4^z, z <= 31
FirstInvalid == Base(32)                       \* 0x5555555555555555

(***************************************************************************)
(* Literal reference algorithm, xy -> digits                               *)
(*   for s = n/2; s > 0; s /= 2:                                           *)
(*     rx = (x & s) > 0 ; ry = (y & s) > 0 ; d += s*s*((3*rx) ^ ry)        *)
(*     rotate(s, x, y, rx, ry):  if ry == 0 { if rx == 1 { x = s-1-x;      *)
(*                                y = s-1-y } ; swap(x, y) }               *)
(* on the bits below s, "s-1-v" is the bitwise complement.                 *)
(***************************************************************************)
Quadrant(rx, ry) == IF rx = 0 THEN ry ELSE 3 - ry        \* (3*rx) XOR ry

RECURSIVE LitFwd(_, _, _, _)
LitFwd(tx, ty, z, i) ==          \* digits i..z
  IF i > z THEN <<>>
  ELSE LET rx == tx[i]  ry == ty[i]
           cx == IF ry = 0 /\ rx = 1 THEN [j \in 1..z |-> IF j > i THEN 1 - tx[j] ELSE tx[j]] ELSE tx
           cy == IF ry = 0 /\ rx = 1 THEN [j \in 1..z |-> IF j > i THEN 1 - ty[j] ELSE ty[j]] ELSE ty
           nx == IF ry = 0 THEN [j \in 1..z |-> IF j > i THEN cy[j] ELSE cx[j]] ELSE cx
           ny == IF ry = 0 THEN [j \in 1..z |-> IF j > i THEN cx[j] ELSE cy[j]] ELSE cy
       IN <<Quadrant(rx, ry)>> \o LitFwd(nx, ny, z, i + 1)

LitDigits(z, x, y) == LitFwd(Bits(x, z), Bits(y, z), z, 1)
LitZxyToId(z, x, y) == U!Plus(Base(z), DigitsToU64(LitDigits(z, x, y)))

(***************************************************************************)
(* Literal reference algorithm, digits -> xy                               *)
(*   for s = 1; s < n; s *= 2:                                             *)
(*     rx = 1 & (t/2) ; ry = 1 & (t ^ rx) ; rotate(s, x, y, rx, ry)        *)
(*     x += s*rx ; y += s*ry ; t /= 4                                      *)
(* x, y are kept as bit vectors indexed 1 (msb) .. z.                      *)
(***************************************************************************)
RECURSIVE LitInv(_, _, _, _, _)
LitInv(d, tx, ty, z, k) ==        \* k = 1 (least significant digit) .. z ; bit index of step k is z-k+1
  IF k > z THEN <<tx, ty>>
  ELSE LET t  == d[z - k + 1]
           rx == t \div 2
           ry == IF rx = 1 THEN 1 - (t % 2) ELSE t % 2          \* 1 & (t ^ rx)
           b  == z - k + 1                                       \* bit being set; lower bits are b+1..z
           cx == IF ry = 0 /\ rx = 1 THEN [j \in 1..z |-> IF j > b THEN 1 - tx[j] ELSE tx[j]] ELSE tx
           cy == IF ry = 0 /\ rx = 1 THEN [j \in 1..z |-> IF j > b THEN 1 - ty[j] ELSE ty[j]] ELSE ty
           sx == IF ry = 0 THEN [j \in 1..z |-> IF j > b THEN cy[j] ELSE cx[j]] ELSE cx
           sy == IF ry = 0 THEN [j \in 1..z |-> IF j > b THEN cx[j] ELSE cy[j]] ELSE cy
           nx == [sx EXCEPT ![b] = rx]
           ny == [sy EXCEPT ![b] = ry]
       IN LitInv(d, nx, ny, z, k + 1)

BitsToNat(b, z) == LET S[i \in 0..z] == IF i = 0 THEN 0 ELSE 2 * S[i - 1] + b[i] IN S[z]   \* z <= 30 fits
LitDigitsToXYBits(d, z) == LitInv(d, [j \in 1..z |-> 0], [j \in 1..z |-> 0], z, 1)

(***************************************************************************)
(* Orientation transducer, xy -> digits.  State (sw, c): the remaining     *)
(* bits are to be read swapped / complemented.  Linear in z.               *)
(***************************************************************************)
TrStep(st, bx, by) ==
  LET ex == IF st.sw THEN by ELSE bx
      ey == IF st.sw THEN bx ELSE by
      rx == IF st.c THEN 1 - ex ELSE ex
      ry == IF st.c THEN 1 - ey ELSE ey
  IN [q  |-> Quadrant(rx, ry),
      sw |-> IF ry = 0 THEN ~st.sw ELSE st.sw,
      c  |-> IF ry = 0 /\ rx = 1 THEN ~st.c ELSE st.c]

TrDigitsBitsRef(xb, yb, z) ==
  LET S[i \in 0..z] == IF i = 0 THEN [q |-> 0, sw |-> FALSE, c |-> FALSE]
                       ELSE TrStep(S[i - 1], xb[i], yb[i])
  IN [i \in 1..z |-> S[i].q]



(***************************************************************************)
(* Table-driven form of the same transducer, for bulk trace validation:    *)
(* state s = 2*sw + c, input b = 2*bx + by  |->  <<digit, next state>>.     *)
(* MC_Hilbert checks it against TrDigits / LitDigits on every tile.        *)
(***************************************************************************)
TrTab == [s \in 0..3 |-> [b \in 0..3 |->
            LET r == TrStep([sw |-> s \div 2 = 1, c |-> s % 2 = 1], b \div 2, b % 2)
            IN <<r.q, (IF r.sw THEN 2 ELSE 0) + (IF r.c THEN 1 ELSE 0)>>]]
IdxT == [z \in 0..31 |-> [i \in 1..z |-> i]]
\* position inside the zoom block as a TLC int; z <= 15 so that it stays below 2^30
PosNat(z, x, y) ==
  FoldLeft(LAMBDA acc, i : LET t == TrTab[acc[1]][2 * Bit(x, z, i) + Bit(y, z, i)]
                           IN <<t[2], 4 * acc[2] + t[1]>>,
           <<0, 0>>, IdxT[z])[2]
BaseNatT == [z \in 0..15 |-> LET S[k \in 0..z] == IF k = 0 THEN 0 ELSE 4 * S[k - 1] + 1 IN S[z]]
ZxyToIdFast(z, x, y) == U!FromNat(BaseNatT[z] + PosNat(z, x, y))          \* z <= 15

\* inverse transducer: digits (msb first) -> bits, processing from the most significant digit
\* with the same orientation state (the forward transducer is invertible per step)
TrInvStep(st, q) ==
  LET rx == IF q >= 2 THEN 1 ELSE 0
      ry == IF q = 1 \/ q = 2 THEN 1 ELSE 0
      ex == IF st.c THEN 1 - rx ELSE rx
      ey == IF st.c THEN 1 - ry ELSE ry
  IN [bx |-> IF st.sw THEN ey ELSE ex,
      by |-> IF st.sw THEN ex ELSE ey,
      sw |-> IF ry = 0 THEN ~st.sw ELSE st.sw,
      c  |-> IF ry = 0 /\ rx = 1 THEN ~st.c ELSE st.c]
TrInvBitsRef(d, z) ==
  LET S[i \in 0..z] == IF i = 0 THEN [bx |-> 0, by |-> 0, sw |-> FALSE, c |-> FALSE]
                       ELSE TrInvStep(S[i - 1], d[i])
  IN <<[i \in 1..z |-> S[i].bx], [i \in 1..z |-> S[i].by]>>


\* the same two transducers driven by the tables (linear, used everywhere below)
TrDigitsBits(xb, yb, z) ==
  FoldLeft(LAMBDA acc, i : LET t == TrTab[acc[1]][2 * xb[i] + yb[i]] IN <<t[2], Append(acc[2], t[1])>>,
           <<0, <<>>>>, IdxT[z])[2]
TrInvTab == [s \in 0..3 |-> [q \in 0..3 |->
               LET r == TrInvStep([sw |-> s \div 2 = 1, c |-> s % 2 = 1], q)
               IN <<r.bx, r.by, (IF r.sw THEN 2 ELSE 0) + (IF r.c THEN 1 ELSE 0)>>]]
TrInvBits(d, z) ==
  LET r == FoldLeft(LAMBDA acc, i : LET t == TrInvTab[acc[1]][d[i]]
                                    IN <<t[3], Append(acc[2], t[1]), Append(acc[3], t[2])>>,
                    <<0, <<>>, <<>>>>, IdxT[z])
  IN <<r[2], r[3]>>

TrDigits(z, x, y) == TrDigitsBits(Bits(x, z), Bits(y, z), z)
\* The specification's ID of an in-grid tile
ZxyToId(z, x, y) == U!Plus(Base(z), DigitsToU64(TrDigits(z, x, y)))

\* zoom of an ID: the z <= 31 with Base(z) <= id < Base(z+1); 32 means "beyond the ID space of zooms 0..31"
BaseT == [z \in 0..32 |-> Base(z)]
ZoomOf(id) == IF U!Le(FirstInvalid, id) THEN 32
              ELSE CHOOSE z \in 0..MaxZoom : U!Le(BaseT[z], id) /\ U!Lt(id, BaseT[z + 1])

\* inverse conversion: [ok |-> TRUE, z, xb, yb] (coordinates as bit vectors, msb first) or [ok |-> FALSE]
IdToZxyBits(id) ==
  LET z == ZoomOf(id) IN
  IF z = 32 THEN [ok |-> FALSE]
  ELSE LET d == U64ToDigits(U!Minus(id, BaseT[z]), z)
           r == TrInvBits(d, z)
       IN [ok |-> TRUE, z |-> z, xb |-> r[1], yb |-> r[2]]

\* bits (msb first, z of them) of a coordinate given as U64 limbs -- for z = 31 and out-of-grid tests
U64Bit(a, p) == (U!LimbLS(a, p \div 16) \div U!P2(p % 16)) % 2        \* p = bit position from lsb, 0..63
U64Bits(a, z) == [i \in 1..z |-> U64Bit(a, z - i)]
U64InGrid(z, a) == z <= MaxZoom /\ \A p \in z..63 : U64Bit(a, p) = 0
ZxyToIdU(z, xa, ya) == U!Plus(BaseT[z], DigitsToU64(TrDigitsBits(U64Bits(xa, z), U64Bits(ya, z), z)))

=============================================================================
