SPECIFICATION Spec
CONSTANTS NIds = 3
  Colliding = FALSE
INVARIANT Inv
PROPERTY RejectedIsStutter
CHECK_DEADLOCK FALSE
