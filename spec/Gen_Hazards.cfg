SPECIFICATION Spec
INVARIANT Classified
INVARIANT GenHazards
CHECK_DEADLOCK FALSE
