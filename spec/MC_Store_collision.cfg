SPECIFICATION Spec
CONSTANTS NIds = 2
  Colliding = TRUE
INVARIANT Refines
CHECK_DEADLOCK FALSE
