INIT Init
NEXT Next
