INIT Init
NEXT Next
