---- MODULE T3 ----
EXTENDS Integers, Sequences, TLC
U == INSTANCE U64
Hd == INSTANCE Header
N(n) == U!FromNat(n)
h0 == [root_off |-> N(127), root_len |-> N(246), meta_off |-> N(373), meta_len |-> N(22), leaf_off |-> N(395), leaf_len |-> N(0),
       data_off |-> N(395), data_len |-> <<0,0,10,5>>, n_addr |-> N(85), n_ent |-> N(84), n_cont |-> N(80),
       clustered |-> 1, icomp |-> 2, tcomp |-> 1, ttype |-> 2, minz |-> 0, maxz |-> 3,
       min_lon |-> -1800000000, min_lat |-> -850511287, max_lon |-> 1800000000, max_lat |-> 850511287, cz |-> 0, c_lon |-> -1, c_lat |-> Hd!I32Min]
ASSUME Hd!I32ToLE(-1800000000) = <<0, 46, 182, 148>>
ASSUME Hd!I32ToLE(1800000000) = <<0, 210, 73, 107>>
ASSUME Hd!I32ToLE(-1) = <<255,255,255,255>>
ASSUME Hd!I32FromLE(<<0, 46, 182, 148>>) = -1800000000
ASSUME Hd!I32FromLE(Hd!I32ToLE(Hd!I32Min)) = Hd!I32Min
ASSUME Len(Hd!EncHeader(h0)) = 127
ASSUME Hd!WellTyped(h0)
ASSUME Hd!DecHeader(Hd!EncHeader(h0)) = [kind |-> "ok", h |-> h0]
ASSUME Hd!DecHeader(SubSeq(Hd!EncHeader(h0),1,126)).class = "short"
VARIABLE x
Init == x = 0
Next == UNCHANGED x
====
