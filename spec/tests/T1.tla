---- MODULE T1 ----
EXTENDS Naturals, Sequences, TLC
U == INSTANCE U64
V == INSTANCE Varint
D == INSTANCE Directory
N(n) == U!FromNat(n)
E1 == <<D!Entry(N(1),N(1),N(5),N(0)), D!Entry(N(2),N(3),N(7),N(5)), D!Entry(N(300),N(0),N(200),N(3))>>
ASSUME PrintT(<<"enc300", V!Enc(N(300))>>)
ASSUME V!Enc(N(300)) = <<172, 2>>
ASSUME V!Enc(U!Max) = <<255,255,255,255,255,255,255,255,255,1>>
ASSUME V!Vals(<<172,2,0,255,255,255,255,255,255,255,255,255,1>>) = <<N(300), U!Zero, U!Max>>
ASSUME U!Add(U!Max, U!One) = [v |-> U!Zero, carry |-> 1]
ASSUME U!Sub(U!Zero, U!One) = [v |-> U!Max, borrow |-> 1]
ASSUME PrintT(<<"encdir", D!EncDir(E1)>>)
ASSUME D!DecDir(D!EncDir(E1)).kind = "ok" /\ D!DecDir(D!EncDir(E1)).dir = E1
ASSUME D!ParsesTo(D!EncDir(E1), E1)
ASSUME D!ValidDir(E1)
ASSUME D!FindEntry(E1, N(4)) = 2 /\ D!FindEntry(E1, N(5)) = 0 /\ D!FindEntry(E1, N(300)) = 0
ASSUME PrintT(D!DecDir(<<1, 0, 1, 1, 0>>))
ASSUME PrintT(D!DecDir(<<255,255,255,255,255,255,255,255,255,1>>))
ASSUME U!ToLEBytes(<<258, 772, 1286, 1800>>) = <<8,7,6,5,4,3,2,1>>
ASSUME U!FromLEBytes(<<8,7,6,5,4,3,2,1>>) = <<258, 772, 1286, 1800>>
VARIABLE x
Init == x = 0
Next == UNCHANGED x
====
