---- MODULE T2 ----
EXTENDS Naturals, Sequences, TLC
U == INSTANCE U64
H == INSTANCE Hilbert
N(n) == U!FromNat(n)
ASSUME H!ZxyToId(0,0,0) = N(0)
ASSUME H!ZxyToId(1,0,0) = N(1) /\ H!ZxyToId(1,0,1) = N(2) /\ H!ZxyToId(1,1,1) = N(3) /\ H!ZxyToId(1,1,0) = N(4)
ASSUME H!ZxyToId(2,0,0) = N(5)
ASSUME H!ZxyToId(12,3423,1763) = N(19078479)
ASSUME H!LitZxyToId(12,3423,1763) = N(19078479)
ASSUME PrintT(<<"base32", H!FirstInvalid, H!Base(31), H!ZxyToId(31, 2147483647, 0)>>)
ASSUME \A z \in 0..5 : \A x \in 0..(H!Pow2(z)-1) : \A y \in 0..(H!Pow2(z)-1) :
          /\ H!LitDigits(z,x,y) = H!TrDigits(z,x,y)
          /\ LET r == H!IdToZxyBits(H!ZxyToId(z,x,y)) IN r.ok /\ r.z = z /\ r.xb = H!Bits(x,z) /\ r.yb = H!Bits(y,z)
          /\ H!LitDigitsToXYBits(H!LitDigits(z,x,y), z) = <<H!Bits(x,z), H!Bits(y,z)>>
ASSUME H!IdToZxyBits(H!FirstInvalid).ok = FALSE
ASSUME H!IdToZxyBits(U!Pred(H!FirstInvalid)).z = 31
ASSUME H!ZxyToIdU(12, N(3423), N(1763)) = N(19078479)
ASSUME H!U64InGrid(2, N(3)) /\ ~H!U64InGrid(2, N(4)) /\ ~H!U64InGrid(2, U!Max)
VARIABLE x
Init == x = 0
Next == UNCHANGED x
====
