INIT Init
NEXT Next
