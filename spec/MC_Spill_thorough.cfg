SPECIFICATION Spec
CONSTANTS MaxRoot = 14
  MaxN = 14
INVARIANT Post
CHECK_DEADLOCK FALSE
