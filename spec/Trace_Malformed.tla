--------------------------- MODULE Trace_Malformed ---------------------------
(***************************************************************************)
(* Trace validation for C08.  Each event is one input (bytes handed to the *)
(* readers) with the outcome of every call a sandboxed worker made on it:  *)
(* "ok" / "err" (the call returned) or "panic" / "abort" / "timeout" /     *)
(* "signal" (it did not).  The specification supplies the verdict of the   *)
(* input (Malformed!Verdict): inputs over the resource budget are outside  *)
(* the claim and must have been skipped; for every other input every call  *)
(* must have returned.                                                     *)
(***************************************************************************)
EXTENDS Integers, Sequences, FiniteSets, TLC, Json, IOUtils
M == INSTANCE Malformed

Rec == ndJsonDeserialize(IOEnv.TRACE)
VARIABLES l, nfail
vars == <<l, nfail>>

Returned(o) == o.kind \in {"ok", "err"}

Tags(e) ==
  LET v == IF "plain" \in DOMAIN e THEN M!Verdict(e.plain) ELSE [kind |-> "opaque"] IN
  IF v.kind = "overbudget"
  THEN (IF e.skipped THEN {"INFO:overbudget_input_skipped"} ELSE {"INFO:overbudget_input_was_run"})
  ELSE IF e.skipped THEN {"STIMULUS_input_skipped_although_within_budget"}
  ELSE (IF \E k \in 1..Len(e.outcomes) : ~Returned(e.outcomes[k])
        THEN {"C08:call_did_not_return_" \o (CHOOSE o \in {e.outcomes[k] : k \in 1..Len(e.outcomes)} : ~Returned(o)).kind}
        ELSE {})
       \cup {"INFO:verdict_" \o v.kind}

Init == l = 1 /\ nfail = 0
Step == /\ l <= Len(Rec)
        /\ LET tags == Tags(Rec[l]) IN
             /\ \A t \in tags : PrintT(<<"FAIL", l, Rec[l].ev, t>>)
             /\ nfail' = nfail + Cardinality(tags)
        /\ l' = l + 1
Next == Step
Spec == Init /\ [][Next]_vars
Finished == (l = Len(Rec) + 1) => PrintT(<<"DONE", Len(Rec), nfail>>)
=============================================================================
