SPECIFICATION Spec
CONSTANTS MaxRoot = 14
  MaxN = 8
INVARIANT Post
CHECK_DEADLOCK FALSE
