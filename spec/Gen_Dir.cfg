SPECIFICATION SpecDir
CONSTANT Tier = "quick"
INVARIANT GenDir
CHECK_DEADLOCK FALSE
