------------------------------- MODULE Header -------------------------------
(***************************************************************************)
(* The fixed 127-byte PMTiles v3 header, transcribed from the v3 text.     *)
(*                                                                         *)
(*  off len field                                                          *)
(*    0   7 magic "PMTiles"                                                *)
(*    7   1 version = 3                                                    *)
(*    8  88 eleven u64 LE: root offset/length, metadata offset/length,     *)
(*          leaf offset/length, tile-data offset/length, addressed tiles,  *)
(*          tile entries, tile contents                                    *)
(*   96   1 clustered (0/1)      97 internal compression (0..4)            *)
(*   98   1 tile compression (0..4)   99 tile type (0..5)                  *)
(*  100   1 min zoom    101 max zoom                                       *)
(*  102   8 min position  (lon E7 i32 LE, lat E7 i32 LE)                   *)
(*  110   8 max position                                                   *)
(*  118   1 center zoom                                                    *)
(*  119   8 center position                                                *)
(* A header value is a record; u64 fields are limb tuples, coordinates are *)
(* the stored i32 (units of 1e-7 degree), everything else a small int.     *)
(***************************************************************************)
EXTENDS Integers, Sequences
U == INSTANCE U64

HeaderLen == 127
Magic == <<80, 77, 84, 105, 108, 101, 115>>          \* "PMTiles"

U64Fields == <<"root_off", "root_len", "meta_off", "meta_len", "leaf_off", "leaf_len",
               "data_off", "data_len", "n_addr", "n_ent", "n_cont">>
CoordFields == <<"min_lon", "min_lat", "max_lon", "max_lat", "c_lon", "c_lat">>

CompressionCodes == 0..4       \* unknown, none, gzip, brotli, zstd
TileTypeCodes    == 0..5       \* unknown, mvt, png, jpeg, webp, avif

I32Min == -2147483647 - 1
I32Max == 2147483647

WellTyped(h) ==
  /\ \A k \in 1..11 : U!IsU64(h[U64Fields[k]])
  /\ h.clustered \in {0, 1}
  /\ h.icomp \in CompressionCodes /\ h.tcomp \in CompressionCodes /\ h.ttype \in TileTypeCodes
  /\ h.minz \in 0..255 /\ h.maxz \in 0..255 /\ h.cz \in 0..255
  /\ \A k \in 1..6 : h[CoordFields[k]] \in I32Min..I32Max

\* two's complement little-endian bytes of an i32 (TLC: \div floors, % is non-negative)
I32ToLE(v) == LET v1 == v \div 256  v2 == v1 \div 256  v3 == v2 \div 256
              IN <<v % 256, v1 % 256, v2 % 256, v3 % 256>>
I32FromLE(b) == b[1] + 256 * b[2] + 65536 * b[3]
                + 16777216 * (IF b[4] >= 128 THEN b[4] - 256 ELSE b[4])

EncHeader(h) ==
  Magic \o <<3>>
  \o U!ToLEBytes(h.root_off) \o U!ToLEBytes(h.root_len)
  \o U!ToLEBytes(h.meta_off) \o U!ToLEBytes(h.meta_len)
  \o U!ToLEBytes(h.leaf_off) \o U!ToLEBytes(h.leaf_len)
  \o U!ToLEBytes(h.data_off) \o U!ToLEBytes(h.data_len)
  \o U!ToLEBytes(h.n_addr) \o U!ToLEBytes(h.n_ent) \o U!ToLEBytes(h.n_cont)
  \o <<h.clustered, h.icomp, h.tcomp, h.ttype, h.minz, h.maxz>>
  \o I32ToLE(h.min_lon) \o I32ToLE(h.min_lat)
  \o I32ToLE(h.max_lon) \o I32ToLE(h.max_lat)
  \o <<h.cz>>
  \o I32ToLE(h.c_lon) \o I32ToLE(h.c_lat)

Err(c) == [kind |-> "err", class |-> c]

\* b: at least the first 127 bytes of the input (1-based)
Slice(b, off0, n) == [i \in 1..n |-> b[off0 + i]]       \* off0 is the 0-based offset
DecHeader(b) ==
  IF Len(b) < HeaderLen THEN Err("short")
  ELSE IF Slice(b, 0, 7) # Magic THEN Err("magic")
  ELSE IF b[8] # 3 THEN Err("version")
  ELSE IF b[98] \notin CompressionCodes \/ b[99] \notin CompressionCodes THEN Err("compression")
  ELSE IF b[100] \notin TileTypeCodes THEN Err("tiletype")
  ELSE IF b[97] \notin {0, 1} THEN Err("clustered")        \* outside the v3 text: either answer tolerated by the checks
  ELSE [kind |-> "ok",
        h |-> [root_off |-> U!FromLEBytes(Slice(b, 8, 8)),  root_len |-> U!FromLEBytes(Slice(b, 16, 8)),
               meta_off |-> U!FromLEBytes(Slice(b, 24, 8)), meta_len |-> U!FromLEBytes(Slice(b, 32, 8)),
               leaf_off |-> U!FromLEBytes(Slice(b, 40, 8)), leaf_len |-> U!FromLEBytes(Slice(b, 48, 8)),
               data_off |-> U!FromLEBytes(Slice(b, 56, 8)), data_len |-> U!FromLEBytes(Slice(b, 64, 8)),
               n_addr   |-> U!FromLEBytes(Slice(b, 72, 8)), n_ent    |-> U!FromLEBytes(Slice(b, 80, 8)),
               n_cont   |-> U!FromLEBytes(Slice(b, 88, 8)),
               clustered |-> b[97], icomp |-> b[98], tcomp |-> b[99], ttype |-> b[100],
               minz |-> b[101], maxz |-> b[102],
               min_lon |-> I32FromLE(Slice(b, 102, 4)), min_lat |-> I32FromLE(Slice(b, 106, 4)),
               max_lon |-> I32FromLE(Slice(b, 110, 4)), max_lat |-> I32FromLE(Slice(b, 114, 4)),
               cz |-> b[119],
               c_lon |-> I32FromLE(Slice(b, 119, 4)), c_lat |-> I32FromLE(Slice(b, 123, 4))]]

(***************************************************************************)
(* Degrees <-> stored E7.  TLA+ has no reals in TLC, so a degree value d   *)
(* enters as the exact pair computed by rational arithmetic on its binary  *)
(* expansion: fl = floor(d * 10^7) and cmp = sign(frac(d * 10^7) - 1/2),   *)
(* with cmp = 0 also inside a 2^-20 band around the tie (the product is    *)
(* formed in f64; one rounding of it may cross the exact tie).             *)
(* The stored value must be the nearest integer; on a tie either one.      *)
(***************************************************************************)
NearestOK(fl, cmp, stored) ==
  CASE cmp < 0 -> stored = fl
    [] cmp > 0 -> stored = fl + 1
    [] OTHER   -> stored \in {fl, fl + 1}

\* reading back: the reported degree value is stored / 10^7 correctly rounded to f64;
\* the harness logs round-trip equality of that quotient, the spec only fixes the integer.

(***************************************************************************)
(* Tables served from the header                                            *)
(***************************************************************************)
ContentEncoding(code) == CASE code = 2 -> "gzip" [] code = 3 -> "br" [] code = 4 -> "zstd" [] OTHER -> "none"
ContentType(code) == CASE code = 1 -> "application/vnd.mapbox-vector-tile" [] code = 2 -> "image/png"
                       [] code = 3 -> "image/jpeg" [] code = 4 -> "image/webp" [] code = 5 -> "image/avif"
                       [] OTHER -> "none"

=============================================================================
