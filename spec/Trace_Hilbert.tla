---------------------------- MODULE Trace_Hilbert ----------------------------
(***************************************************************************)
(* Trace validation for C07: every tile ID / inverse / coordinate lookup   *)
(* observed on the real library is recomputed with Hilbert.tla.            *)
(***************************************************************************)
EXTENDS Integers, Sequences, TLC, Json, IOUtils
U == INSTANCE U64
H == INSTANCE Hilbert

Rec == ndJsonDeserialize(IOEnv.TRACE)

VARIABLES l, nfail
vars == <<l, nfail>>

RowJudge(e) ==
  IF \E k \in 1..Len(e.ids) : e.ids[k] # H!ZxyToIdFast(e.z, e.x, e.y0 + k - 1)
  THEN "tile_id_differs_from_v3_hilbert_id" ELSE "ok"

PtsJudge(e) ==
  IF \E k \in 1..Len(e.cases) :
        LET c == e.cases[k] IN
          ~(H!U64InGrid(c.z, c.x) /\ H!U64InGrid(c.z, c.y)) \/ c.id # H!ZxyToIdU(c.z, c.x, c.y)
  THEN "tile_id_differs_from_v3_hilbert_id" ELSE "ok"

InvOK(c) ==
  LET r == H!IdToZxyBits(c.id) IN
  IF ~r.ok THEN c.res = "err"
  ELSE /\ c.res = "ok" /\ c.z = r.z
       /\ H!U64InGrid(r.z, c.x) /\ H!U64InGrid(r.z, c.y)
       /\ H!U64Bits(c.x, r.z) = r.xb /\ H!U64Bits(c.y, r.z) = r.yb
InvJudge(e) ==
  IF \E k \in 1..Len(e.cases) : ~InvOK(e.cases[k]) THEN "zxy_wrong_or_not_rejected" ELSE "ok"

LookupOK(tiles, c) ==
  IF c.z <= H!MaxZoom /\ H!U64InGrid(c.z, c.x) /\ H!U64InGrid(c.z, c.y)
  THEN LET want == H!ZxyToIdU(c.z, c.x, c.y)
           hit  == {k \in 1..Len(tiles) : tiles[k].id = want}
       IN IF hit = {} THEN c.res = "none"
          ELSE c.res = "some" /\ \E k \in hit : tiles[k].tok = c.tok
  ELSE c.res \in {"none", "err"}            \* not a tile: no tile or an error, never bytes, never a crash
LookupJudge(e) ==
  IF \E k \in 1..Len(e.cases) : ~LookupOK(e.tiles, e.cases[k]) THEN
     (IF \E k \in 1..Len(e.cases) : e.cases[k].res = "panic" THEN "lookup_crash" ELSE "lookup_wrong_tile")
  ELSE "ok"

Judge(e) ==
  CASE e.ev = "Row"    -> RowJudge(e)
    [] e.ev = "Pts"    -> PtsJudge(e)
    [] e.ev = "Inv"    -> InvJudge(e)
    [] e.ev = "Lookup" -> LookupJudge(e)
    [] OTHER           -> "STIMULUS_unknown_event"

Init == l = 1 /\ nfail = 0
Step == /\ l <= Len(Rec)
        /\ LET tag == Judge(Rec[l]) IN
             /\ IF tag = "ok" THEN TRUE ELSE PrintT(<<"FAIL", l, Rec[l].ev, tag>>)
             /\ nfail' = nfail + (IF tag = "ok" THEN 0 ELSE 1)
        /\ l' = l + 1
Next == Step
Spec == Init /\ [][Next]_vars
Finished == (l = Len(Rec) + 1) => PrintT(<<"DONE", Len(Rec), nfail>>)
=============================================================================
