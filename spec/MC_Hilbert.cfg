SPECIFICATION Spec
CONSTANT MaxZ = 6
INVARIANT Theorems
CHECK_DEADLOCK FALSE
