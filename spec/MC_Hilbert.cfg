SPECIFICATION Spec
CONSTANT MaxZ = 7
INVARIANT Theorems
CHECK_DEADLOCK FALSE
