----------------------------- MODULE Trace_Codec -----------------------------
(***************************************************************************)
(* Trace validation for the wire codecs (C05, C09, zero-length part of     *)
(* C19).  Every event is one case executed against the real library; the   *)
(* judge recomputes the v3 encoding/decoding with the base modules.        *)
(*                                                                         *)
(* The trace spec consumes one event per step.  A step whose observation   *)
(* is not the one the specification allows is the named deviation action   *)
(* Mismatch: it is reported (FAIL line) and counted, and validation goes   *)
(* on so that every deviating event of a run is found.                     *)
(***************************************************************************)
EXTENDS Integers, Sequences, TLC, Json, IOUtils
U  == INSTANCE U64
V  == INSTANCE Varint
D  == INSTANCE Directory
Hd == INSTANCE Header

Rec == ndJsonDeserialize(IOEnv.TRACE)

VARIABLES l, nfail
vars == <<l, nfail>>

Has(r, f) == f \in DOMAIN r

(* ---- directories ------------------------------------------------------- *)
DirJudge(e) ==
  LET E == e.entries IN
  IF D!HasZeroLen(E)
  THEN IF \A k \in 1..Len(e.enc) : e.enc[k].res = "err" THEN "ok" ELSE "zero_len_accepted_by_serialiser"
  ELSE IF ~D!ValidDir(E) THEN "STIMULUS_invalid_dir"
  ELSE LET enc == D!EncDir(E) IN
       IF \E k \in 1..Len(e.enc) : e.enc[k].res # "ok" THEN "serialiser_failed"
       ELSE IF \E k \in 1..Len(e.enc) : e.blobs[e.enc[k].blob] # enc THEN "bytes_differ_from_v3_encoding"
       ELSE IF \E k \in 1..Len(e.dec) : e.dec[k].res # "ok" THEN "parser_failed"
       ELSE IF \E k \in 1..Len(e.dec) : e.lists[e.dec[k].list] # E THEN "parse_differs"
       ELSE "ok"

DirRawJudge(e) ==
  IF ~D!ValidDir(e.entries) \/ e.raw # D!EncDir(e.entries) THEN "STIMULUS_raw_not_encoding"
  ELSE IF \E k \in 1..Len(e.dec) : e.dec[k].res # "ok" THEN "parser_failed"
  ELSE IF \E k \in 1..Len(e.dec) : e.lists[e.dec[k].list] # e.entries THEN "parse_differs"
  ELSE "ok"

\* the length field of entry p is 0, or 0 modulo 2^32 (what a 32-bit length field holds): the directory must be refused
\* -- and whatever the parser answers, no entry of length 0 may come out of it
DirZeroRawJudge(e) ==
  LET ends == V!Ends(e.raw)
      t == IF Len(ends) >= 1 + 4 * e.n THEN V!TokVal(e.raw, ends, 1 + 2 * e.n + e.p) ELSE U!One IN
  IF Len(ends) < 1 + 4 * e.n \/ t[3] # 0 \/ t[4] # 0 THEN "STIMULUS_no_zero_len"
  ELSE IF \E k \in 1..Len(e.dec) : e.dec[k].zero_out THEN "zero_length_entry_returned_by_parser"
  ELSE IF t = U!Zero /\ \E k \in 1..Len(e.dec) : e.dec[k].res # "err" THEN "zero_len_accepted_by_parser"
  ELSE IF \E k \in 1..Len(e.dec) : e.dec[k].res \notin {"ok", "err"} THEN "parser_crashed_on_zero_length"
  ELSE "ok"

(* ---- headers ------------------------------------------------------------ *)
HdrObsOK(o, d, first) ==
  /\ o.res = "ok"
  /\ Has(o, "h") /\ o.h = d.h
  /\ (Has(o, "pos") => o.pos = 127)
  /\ Has(o, "re_sync") /\ o.re_sync_res = "ok" /\ o.re_sync = first
  /\ Has(o, "re_async") /\ o.re_async_res = "ok" /\ o.re_async = first

HdrJudge(e) ==
  LET d == Hd!DecHeader(e.bytes) IN
  IF d.kind = "err"
  THEN IF d.class = "clustered"
       THEN IF \A k \in 1..Len(e.obs) : e.obs[k].res \in {"ok", "err"} THEN "ok" ELSE "crash"
       ELSE IF \A k \in 1..Len(e.obs) : e.obs[k].res = "err" THEN "ok" ELSE "invalid_header_" \o d.class \o "_not_rejected"
  ELSE LET first == SubSeq(e.bytes, 1, 127) IN
       IF \E k \in 1..Len(e.obs) : e.obs[k].res # "ok" THEN "valid_header_rejected"
       ELSE IF \E k \in 1..Len(e.obs) : ~(Has(e.obs[k], "h") /\ e.obs[k].h = d.h) THEN "fields_differ"
       ELSE IF \E k \in 1..Len(e.obs) : Has(e.obs[k], "pos") /\ e.obs[k].pos # 127 THEN "reader_position_not_127"
       ELSE IF \E k \in 1..Len(e.obs) : ~HdrObsOK(e.obs[k], d, first) THEN "reencoding_differs"
       ELSE "ok"

HdrEncJudge(e) ==
  IF ~Hd!WellTyped(e.h) THEN "STIMULUS_header_not_well_typed"
  ELSE LET b == Hd!EncHeader(e.h) IN
       IF \E k \in 1..Len(e.obs) : e.obs[k].res # "ok" THEN "serialiser_failed"
       ELSE IF \E k \in 1..Len(e.obs) : e.obs[k].bytes # b THEN "bytes_differ_from_v3_layout"
       ELSE "ok"

CoordsJudge(e) ==
  IF \E k \in 1..Len(e.cases) : e.cases[k].res # "ok" THEN "serialiser_failed"
  ELSE IF \E k \in 1..Len(e.cases) :
            ~Hd!NearestOK(e.cases[k].fl, e.cases[k].cmp, e.cases[k].stored) THEN "not_nearest_e7"
  ELSE "ok"

\* beyond the listed properties (tags "X:..." are reported as INFO, never gated)
TablesJudge(e) ==
  IF \E k \in 1..Len(e.rows) :
        LET r == e.rows[k] IN
          \/ r.ct # Hd!ContentType(r.tt) \/ r.ct_enum # Hd!ContentType(r.tt)
          \/ r.ce # Hd!ContentEncoding(r.tc) \/ r.ce_enum # Hd!ContentEncoding(r.tc)
  THEN "X:http_content_tables_differ_from_specification"
  ELSE IF e.mime # "application/vnd.pmtiles" THEN "X:mime_type_differs" ELSE "ok"

\* large directories: serialise-then-parse returns the identical list (equality computed on the list values)
RoundTripJudge(e) ==
  IF \E k \in 1..Len(e.obs) : e.obs[k].enc # "ok" \/ e.obs[k].dec # "ok" THEN "serialiser_or_parser_failed_on_large_directory"
  ELSE IF \E k \in 1..Len(e.obs) : ~e.obs[k].same \/ e.obs[k].n_parsed # e.n THEN "parse_differs"
  ELSE "ok"

\* documented defaults (new archive: gzip internal compression, zeros, no metadata, no tiles; Header::default():
\* version 3, gzip / none / unknown, bounds -180,-85 .. 180,85) and the small Directory / Entry API
DefaultsJudge(e) ==
  LET d == Hd!DecHeader(e.header_default) IN
  IF e.new.ic # 2 \/ e.new.tc # 3 \/ e.new.tt # 2 \/ e.new.zooms # <<0, 0, 0>> \/ e.new.n # 0 \/ ~e.new.meta_empty \/ ~e.new.coords_zero
  THEN "X:defaults_of_a_new_archive_differ_from_documentation"
  ELSE IF d.kind # "ok" \/ d.h.icomp # 2 \/ d.h.tcomp # 1 \/ d.h.ttype # 0 \/ d.h.clustered # 0
          \/ <<d.h.min_lon, d.h.min_lat, d.h.max_lon, d.h.max_lat, d.h.c_lon, d.h.c_lat>> # <<-1800000000, -850000000, 1800000000, 850000000, 0, 0>>
          \/ \E k \in 1..11 : d.h[Hd!U64Fields[k]] # U!Zero
  THEN "X:header_default_differs_from_documentation"
  ELSE IF \E k \in 1..Len(e.apis) :
            LET a == e.apis[k]  E == a.entries IN
              \/ a.len # Len(E) \/ a.is_empty # (Len(E) = 0) \/ a.iter # E \/ a.back # E
              \/ (Len(E) > 0 /\ a.first # <<E[1]>>)
              \/ \E i \in 1..Len(E) : \/ a.ranges[i] # <<E[i].id, U!Plus(E[i].id, E[i].run)>>
                                       \/ a.leafs[i] # D!IsLeafPtr(E[i])
  THEN "X:directory_api_differs"
  ELSE "ok"

Judge(e) ==
  CASE e.ev = "Tables"     -> TablesJudge(e)
    [] e.ev = "Defaults"   -> DefaultsJudge(e)
    [] e.ev = "DirRoundTrip" -> RoundTripJudge(e)
    [] e.ev = "Dir"        -> DirJudge(e)
    [] e.ev = "DirRaw"     -> DirRawJudge(e)
    [] e.ev = "DirZeroRaw" -> DirZeroRawJudge(e)
    [] e.ev = "Hdr"        -> HdrJudge(e)
    [] e.ev = "HdrEnc"     -> HdrEncJudge(e)
    [] e.ev = "Coords"     -> CoordsJudge(e)
    [] OTHER               -> "STIMULUS_unknown_event"

Init == l = 1 /\ nfail = 0

Step == /\ l <= Len(Rec)
        /\ LET tag == Judge(Rec[l]) IN
             /\ IF tag = "ok" THEN TRUE ELSE PrintT(<<"FAIL", l, Rec[l].ev, tag>>)
             /\ nfail' = nfail + (IF tag = "ok" THEN 0 ELSE 1)
        /\ l' = l + 1

Next == Step
Spec == Init /\ [][Next]_vars

Finished == (l = Len(Rec) + 1) => PrintT(<<"DONE", Len(Rec), nfail>>)

=============================================================================
