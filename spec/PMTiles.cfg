SPECIFICATION Spec
CONSTANT NIds = 2
INVARIANT Inv
PROPERTY RejectedIsStutter
CHECK_DEADLOCK FALSE
