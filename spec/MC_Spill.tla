------------------------------- MODULE MC_Spill -------------------------------
(***************************************************************************)
(* Bounded instance of the leaf-spill writer with scaled constants: the    *)
(* root budget is MaxRoot bytes (a one-pointer directory takes 5), entry   *)
(* lists of up to MaxN entries, every start size, two codecs.              *)
(* Checks termination (never stuck) and the C06 post-conditions.           *)
(***************************************************************************)
EXTENDS Integers, Sequences, TLC
U  == INSTANCE U64
D  == INSTANCE Directory
DT == INSTANCE DirTree

CONSTANTS MaxRoot, MaxN
N(n) == U!FromNat(n)

\* entry lists: n entries, IDs with pattern-dependent gaps, runs 1..2, contiguous or shared offsets
Pat(n, g, r, o) ==
  [i \in 1..n |-> D!Entry(N((i - 1) * (g + r) + (IF g = 2 THEN 100 * i ELSE 0)), N(r), N(3 + (i % 2)),
                          IF o = 0 THEN N(7 * (i - 1)) ELSE IF o = 1 THEN N(0) ELSE N(200 * (i % 3)))]
Lists == { Pat(n, g, r, o) : n \in 0..MaxN, g \in 0..2, r \in 1..2, o \in 0..2 }
Starts == {1, 2, 3, 4, 100}
Codecs == {"none", "half"}

VARIABLE c
Init == \E E \in Lists : \E st \in Starts : \E cd \in Codecs : c = [E |-> E, start |-> st, codec |-> cd]
Next == UNCHANGED c
Spec == Init /\ [][Next]_c

Post ==
  LET R == DT!Spill(c.E, c.codec, c.start, MaxRoot) IN
  /\ D!ValidDir(c.E)
  /\ "stuck" \notin DOMAIN R                                   \* the doubling loop terminates with a fitting root
  /\ DT!SpillPost(c.E, R, c.codec, MaxRoot)
\* both branches are exercised (non-vacuity)
ASSUME \E E \in Lists : DT!Fits(E, "none", MaxRoot) /\ Len(E) > 0
ASSUME \E E \in Lists : ~DT!Fits(E, "half", MaxRoot)
=============================================================================
