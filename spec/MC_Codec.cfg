SPECIFICATION Spec
CONSTANT Tier = "quick"
INVARIANT Laws
CHECK_DEADLOCK FALSE
