------------------------------- MODULE Archive -------------------------------
(***************************************************************************)
(* A PMTiles v3 archive as the specification reads it.                      *)
(*                                                                         *)
(* A file image F is presented as a record                                  *)
(*   hdr    : the first 127 bytes                                           *)
(*   flen   : total length (U64)                                            *)
(*   root   : [raw |-> uncompressed root directory bytes, entries |-> hint]  *)
(*   leaves : sequence of [off, len, raw, entries] -- one per leaf pointer  *)
(*   tiles  : the resolved tile entries in order, each with the token of    *)
(*            the bytes found at tile-data offset + entry offset            *)
(*   meta   : [kind |-> "object" | "array" | ... | "empty", tok |-> token]  *)
(* "entries" and "tiles" are hints produced by a transport-level decoder;   *)
(* nothing is believed before it is verified here against the raw bytes     *)
(* (Directory!ParsesTo, Resolve).  Decompression is the environment's.      *)
(*                                                                         *)
(* WellFormed is the independent reader of C02; ReadsAs relates a file to   *)
(* the logical archive (a set of <<id, token>> pairs); Dedup / RunsMaximal  *)
(* / Counters / Clustered are the layout clauses of C02 and C10.            *)
(***************************************************************************)
EXTENDS Integers, Sequences, FiniteSets
LOCAL INSTANCE SequencesExt
LOCAL INSTANCE FiniteSetsExt
U  == INSTANCE U64
D  == INSTANCE Directory
Hd == INSTANCE Header

N(n) == U!FromNat(n)
MaxDepth == 4                        \* root + 3 leaf levels, the bound of the reference readers
RootBudget == 16384                  \* header + root directory must lie in the first 16 KiB

(* ---- sections ------------------------------------------------------------ *)
SecEnd(off, len) == U!Add(off, len)                       \* [v, carry]
Inside(off, len, flen) == SecEnd(off, len).carry = 0 /\ U!Le(SecEnd(off, len).v, flen)
\* two byte ranges are disjoint (empty ranges are disjoint from everything)
Disjoint(o1, l1, o2, l2) ==
  \/ l1 = U!Zero \/ l2 = U!Zero
  \/ U!Le(SecEnd(o1, l1).v, o2) \/ U!Le(SecEnd(o2, l2).v, o1)

Sections(h) == << <<N(0), N(127)>>, <<h.root_off, h.root_len>>, <<h.meta_off, h.meta_len>>,
                  <<h.leaf_off, h.leaf_len>>, <<h.data_off, h.data_len>> >>

SectionsOK(h, flen) ==
  /\ \A i \in 1..5 : Inside(Sections(h)[i][1], Sections(h)[i][2], flen)
  /\ \A i \in 1..5 : \A j \in (i + 1)..5 :
        Disjoint(Sections(h)[i][1], Sections(h)[i][2], Sections(h)[j][1], Sections(h)[j][2])
  /\ U!Le(SecEnd(h.root_off, h.root_len).v, N(RootBudget))

(* ---- directory tree ------------------------------------------------------- *)
StripTok(t) == [id |-> t.id, run |-> t.run, len |-> t.len, off |-> t.off]

LeafFor(leaves, e) == {k \in 1..Len(leaves) : leaves[k].off = e.off /\ leaves[k].len = e.len}

\* every hint is the parse of its raw bytes; every pointer has its leaf
HintsVerified(F) ==
  /\ D!ParsesTo(F.root.raw, F.root.entries)
  /\ \A k \in 1..Len(F.leaves) : D!ParsesTo(F.leaves[k].raw, F.leaves[k].entries)

\* resolution of the tree into the sequence of tile entries, depth-first in directory order
RECURSIVE ResolveDir(_, _, _)
ResolveDir(E, leaves, depth) ==
  IF depth > MaxDepth THEN << [bad |-> "too_deep"] >>
  ELSE FlattenSeq([i \in 1..Len(E) |->
         IF D!IsLeafPtr(E[i])
         THEN LET ks == LeafFor(leaves, E[i]) IN
              IF ks = {} THEN << [bad |-> "missing_leaf"] >>
              ELSE ResolveDir(leaves[CHOOSE k \in ks : TRUE].entries, leaves, depth + 1)
         ELSE << E[i] >>])

IsBad(x) == "bad" \in DOMAIN x

TreeOK(F, h) ==
  /\ D!ValidDir(F.root.entries)
  /\ \A k \in 1..Len(F.leaves) :
        /\ D!ValidDir(F.leaves[k].entries)
        /\ Len(F.leaves[k].entries) > 0
        /\ Inside(F.leaves[k].off, F.leaves[k].len, h.leaf_len)       \* pointer range inside the leaf section
  \* a pointer carries its leaf's first tile ID
  /\ \A k \in 1..Len(F.leaves) :
        \A E \in {F.root.entries} \cup {F.leaves[j].entries : j \in 1..Len(F.leaves)} :
          \A i \in 1..Len(E) :
             (D!IsLeafPtr(E[i]) /\ E[i].off = F.leaves[k].off /\ E[i].len = F.leaves[k].len)
                => E[i].id = F.leaves[k].entries[1].id

Resolved(F) == ResolveDir(F.root.entries, F.leaves, 1)

TilesAreResolution(F) ==
  LET R == Resolved(F) IN
  /\ \A i \in 1..Len(R) : ~IsBad(R[i])
  /\ Len(R) = Len(F.tiles)
  /\ \A i \in 1..Len(R) : R[i] = StripTok(F.tiles[i])

(* ---- clauses on the resolved tile entries T ---------------------------------- *)
GloballyAscending(T) == D!ValidDir([i \in 1..Len(T) |-> StripTok(T[i])])
                        /\ \A i \in 1..Len(T) : ~D!IsLeafPtr(T[i])

TilesInsideData(T, h) == \A i \in 1..Len(T) : Inside(T[i].off, T[i].len, h.data_len)

SumRuns(T) == FoldLeft(LAMBDA acc, t : U!Plus(acc, t.run), U!Zero, T)
OffsetsOf(T) == {T[i].off : i \in 1..Len(T)}
PairsOf(T)   == {<<T[i].off, T[i].len>> : i \in 1..Len(T)}

Counters(T, h) ==
  /\ h.n_addr = SumRuns(T)
  /\ h.n_ent  = N(Len(T))
  /\ h.n_cont = N(Cardinality(OffsetsOf(T)))

\* tile data laid out in tile-ID order: every entry either starts at the high-water mark
\* (new content) or refers back to content placed earlier
ClusterScan(T) ==
  FoldLeft(LAMBDA acc, t :
             IF t.off = acc.hwm
             THEN [hwm |-> U!Plus(t.off, t.len), ok |-> acc.ok, new |-> Append(acc.new, <<t.off, t.len>>), back |-> acc.back]
             ELSE [hwm |-> acc.hwm, ok |-> acc.ok /\ U!Lt(t.off, acc.hwm), new |-> acc.new,
                   back |-> Append(acc.back, <<t.off, t.len>>)],
           [hwm |-> U!Zero, ok |-> TRUE, new |-> <<>>, back |-> <<>>], T)
IsClustered(T) ==
  LET r == ClusterScan(T)
      newSet == {r.new[k] : k \in 1..Len(r.new)}
  IN r.ok /\ \A k \in 1..Len(r.back) : r.back[k] \in newSet

\* expansion of runs: the set of <<id, token>> the archive addresses (runs must be small TLC ints)
Addressed(T) ==
  UNION { { <<U!Plus(T[i].id, N(k)), T[i].tok>> : k \in 0..(U!ToNat(T[i].run) - 1) } : i \in 1..Len(T) }


(* ---- the v3 lookup procedure (as in the specification's pseudo code) ----------------- *)
\* in one directory: the last entry whose ID is <= the target (0 if none)
LastLE(E, id) == LET S == {i \in 1..Len(E) : U!Le(E[i].id, id)} IN
                 IF S = {} THEN 0 ELSE CHOOSE i \in S : \A j \in S : j <= i
RECURSIVE LookupDir(_, _, _, _)
LookupDir(E, leaves, id, depth) ==
  IF depth > MaxDepth THEN [kind |-> "none"]
  ELSE LET i == LastLE(E, id) IN
       IF i = 0 THEN [kind |-> "none"]
       ELSE IF D!IsLeafPtr(E[i])
            THEN LET ks == LeafFor(leaves, E[i]) IN
                 IF ks = {} THEN [kind |-> "none"]
                 ELSE LookupDir(leaves[CHOOSE k \in ks : TRUE].entries, leaves, id, depth + 1)
            ELSE IF U!Le(id, D!LastId(E[i])) THEN [kind |-> "some", off |-> E[i].off, len |-> E[i].len]
            ELSE [kind |-> "none"]
Lookup(F, id) == LookupDir(F.root.entries, F.leaves, id, 1)

(* ---- C02: the independent reader -------------------------------------------------- *)
\* result: "ok" or the name of the first violated clause
WellFormed(F) ==
  LET d == Hd!DecHeader(F.hdr) IN
  IF d.kind # "ok" THEN "header_" \o d.class
  ELSE LET h == d.h  T == F.tiles IN
    IF ~SectionsOK(h, F.flen) THEN "sections_outside_overlapping_or_root_beyond_16KiB"
    ELSE IF h.icomp \notin 1..4 THEN "internal_compression_unknown"
    ELSE IF ~HintsVerified(F) THEN "directory_not_decodable"
    ELSE IF ~TreeOK(F, h) THEN "directory_tree_invalid"
    ELSE IF ~TilesAreResolution(F) THEN "TRANSPORT_tiles_not_resolution"
    ELSE IF ~GloballyAscending(T) THEN "entries_not_ascending_or_overlapping"
    ELSE IF ~TilesInsideData(T, h) THEN "tile_range_outside_data_section"
    ELSE IF ~Counters(T, h) THEN "header_counters_wrong"
    ELSE IF h.clustered = 1 /\ ~IsClustered(T) THEN "clustered_flag_but_not_in_id_order"
    ELSE IF F.meta.kind # "object" THEN "metadata_not_json_object"
    ELSE "ok"

(* ---- C10: deduplication and run-length, exact and minimal --------------------------- *)
TokPairs(T) == {<<T[i].tok, T[i].off, T[i].len>> : i \in 1..Len(T)}
\* identical contents share one offset, different contents never do
DedupExact(T) ==
  /\ Cardinality({p[1] : p \in TokPairs(T)}) = Cardinality(TokPairs(T))        \* token -> one (off, len)
  /\ Cardinality({<<p[2], p[3]>> : p \in TokPairs(T)}) = Cardinality(TokPairs(T))   \* (off, len) -> one token
\* data section = exactly the distinct contents: its length is the sum of their lengths and
\* the stored ranges do not overlap
DataExact(T, h) ==
  LET P == PairsOf(T)
      total == FoldSet(LAMBDA p, acc : U!Plus(acc, p[2]), U!Zero, P)
      S == SetToSortSeq(P, LAMBDA p, q : U!Lt(p[1], q[1]) \/ (p[1] = q[1] /\ U!Lt(p[2], q[2])))
  IN /\ h.data_len = total
     /\ \A k \in 2..Len(S) : U!Le(SecEnd(S[k - 1][1], S[k - 1][2]).v, S[k][1])     \* sorted by offset: no overlap
Mergeable(a, b) == /\ b.id = U!Succ(D!LastId(a)) /\ b.off = a.off /\ b.len = a.len /\ b.tok = a.tok
RunsMaximal(T) == \A i \in 2..Len(T) : ~Mergeable(T[i - 1], T[i])

(* ---- the witness writer (small models only) ------------------------------------------ *)
\* abs: set of <<id, content>>; clen(content) its length.  One valid layout: tiles in ID order,
\* first occurrence stored, maximal runs.  Not the required layout (see DESIGN 2).
SortedIds(abs) == SetToSortSeq({p[1] : p \in abs}, LAMBDA a, b : U!Lt(a, b))
ContentOf(abs, id) == (CHOOSE p \in abs : p[1] = id)[2]

CanonTiles(abs, clen(_)) ==
  LET ids == SortedIds(abs)
      Step(acc, id) ==
        LET c == ContentOf(abs, id)
            known == {p \in acc.placed : p[1] = c}
            off == IF known = {} THEN acc.hwm ELSE (CHOOSE p \in known : TRUE)[2]
            ln  == N(clen(c))
            T   == acc.T
            last == IF Len(T) = 0 THEN [id |-> U!Zero, run |-> U!Zero, len |-> U!Zero, off |-> U!Zero, tok |-> c] ELSE T[Len(T)]
        IN IF Len(T) > 0 /\ id = U!Succ(D!LastId(last)) /\ last.off = off /\ last.len = ln
           THEN [T |-> [T EXCEPT ![Len(T)].run = U!Succ(@)], hwm |-> acc.hwm, placed |-> acc.placed]
           ELSE [T |-> Append(T, [id |-> id, run |-> U!One, len |-> ln, off |-> off, tok |-> c]),
                 hwm |-> IF known = {} THEN U!Plus(acc.hwm, ln) ELSE acc.hwm,
                 placed |-> acc.placed \cup {<<c, off>>}]
  IN FoldLeft(Step, [T |-> <<>>, hwm |-> U!Zero, placed |-> {}], ids).T

=============================================================================
