------------------------------ MODULE Directory ------------------------------
(***************************************************************************)
(* PMTiles v3 directory wire format, transcribed from the v3 specification *)
(* text (section "Directories"):                                           *)
(*   varint  number of entries n                                           *)
(*   n varints  tile IDs, delta-coded against the previous ID (first: 0)   *)
(*   n varints  run lengths                                                *)
(*   n varints  lengths (must be > 0)                                      *)
(*   n varints  offsets: 0 = "contiguous with the previous entry" (only    *)
(*              for index > 0), otherwise offset + 1                       *)
(* An entry with run length 0 points to a leaf directory.                  *)
(* Entries are records [id, run, len, off] of U64 limb tuples.             *)
(***************************************************************************)
EXTENDS Naturals, Sequences
LOCAL INSTANCE SequencesExt
U == INSTANCE U64
V == INSTANCE Varint

Entry(id, run, len, off) == [id |-> id, run |-> run, len |-> len, off |-> off]

IsLeafPtr(e) == e.run = U!Zero
\* how many consecutive IDs the entry occupies in the ordering (a pointer occupies its first ID)
Span(e)      == IF e.run = U!Zero THEN U!One ELSE e.run
LastIdR(e)   == U!Add(e.id, U!Pred(Span(e)))            \* [v, carry]
LastId(e)    == LastIdR(e).v
EndOff(e)    == U!Add(e.off, e.len)                     \* [v, carry]

WellTypedEntry(e) == /\ U!IsU64(e.id) /\ U!IsU64(e.off)
                     /\ U!IsU64(e.run) /\ U!IsU32(e.run)
                     /\ U!IsU64(e.len) /\ U!IsU32(e.len)

\* a valid directory in the sense of the properties: ascending, non-overlapping runs, len >= 1
ValidDir(E) ==
  /\ \A i \in 1..Len(E) : /\ WellTypedEntry(E[i])
                          /\ E[i].len # U!Zero
                          /\ LastIdR(E[i]).carry = 0
  /\ \A i \in 2..Len(E) : U!Lt(LastId(E[i - 1]), E[i].id)

Covers(e, id) == ~IsLeafPtr(e) /\ U!Le(e.id, id) /\ U!Le(id, LastId(e))

\* "looking an ID up in a single directory finds the entry whose run covers it and no other"
\* result: 0 = none, else the index
FindEntry(E, id) ==
  LET hits == {i \in 1..Len(E) : Covers(E[i], id)}
  IN IF hits = {} THEN 0 ELSE CHOOSE i \in hits : \A j \in hits : i <= j

(***************************************************************************)
(* Encoder (function)                                                      *)
(***************************************************************************)
PrevId(E, i)  == IF i = 1 THEN U!Zero ELSE E[i - 1].id
Delta(E, i)   == U!Minus(E[i].id, PrevId(E, i))
Contig(E, i)  == i > 1 /\ EndOff(E[i - 1]).carry = 0 /\ E[i].off = EndOff(E[i - 1]).v
OffCode(E, i) == IF Contig(E, i) THEN U!Zero ELSE U!Succ(E[i].off)

EncDir(E) ==
  LET n == Len(E) IN
  FlattenSeq( <<V!Enc(U!FromNat(n))>>
              \o [i \in 1..n |-> V!Enc(Delta(E, i))]
              \o [i \in 1..n |-> V!Enc(E[i].run)]
              \o [i \in 1..n |-> V!Enc(E[i].len)]
              \o [i \in 1..n |-> V!Enc(OffCode(E, i))] )

\* the serialiser must refuse these
HasZeroLen(E) == \E i \in 1..Len(E) : E[i].len = U!Zero

(***************************************************************************)
(* Decoder as a relation: "raw parses to E" (non-canonical varints and     *)
(* trailing bytes tolerated, as a stream reader would).  Per-index, so it  *)
(* is linear in Len(E); used to judge parses of large directories.         *)
(***************************************************************************)
ParsesTo(raw, E) ==
  LET e == V!Ends(raw)
      n == Len(E)
      T(k) == V!TokVal(raw, e, k)
  IN /\ Len(e) >= 1 + 4 * n
     /\ \A k \in 1..(1 + 4 * n) : ~V!TokBad(raw, e, k)
     /\ T(1) = U!FromNat(n)
     /\ \A i \in 1..n :
          /\ WellTypedEntry(E[i])
          /\ U!Add(PrevId(E, i), T(1 + i)).carry = 0
          /\ E[i].id  = U!Add(PrevId(E, i), T(1 + i)).v
          /\ E[i].run = T(1 + n + i)
          /\ E[i].len = T(1 + 2 * n + i)
          /\ E[i].len # U!Zero
          /\ LET c == T(1 + 3 * n + i) IN
               IF i > 1 /\ c = U!Zero
               THEN EndOff(E[i - 1]).carry = 0 /\ E[i].off = EndOff(E[i - 1]).v
               ELSE c # U!Zero /\ E[i].off = U!Pred(c)

\* byte-exact: raw is THE v3 encoding of E
IsDirEncoding(E, raw) == raw = EncDir(E)

(***************************************************************************)
(* Decoder as a total function (small inputs: sequential folds).           *)
(* Result: [kind |-> "ok", dir |-> E, used |-> bytes consumed]             *)
(*       | [kind |-> "err", class |-> c]                                   *)
(* Classes name every hazard of the wire format.                           *)
(***************************************************************************)
Err(c) == [kind |-> "err", class |-> c]

DecDir(raw) ==
  LET e == V!Ends(raw)
      K == Len(e)
      T(k) == V!TokVal(raw, e, k)
  IN
  IF K = 0 THEN Err("eof")
  ELSE IF V!TokBad(raw, e, 1) THEN Err("varint_overflow")
  ELSE IF ~U!IsSmall(T(1)) \/ U!ToNat(T(1)) > (K - 1) \div 4 THEN Err("count_gt_input")
  ELSE
    LET n == U!ToNat(T(1))
        ids[i \in 0..n] == IF i = 0 THEN [v |-> U!Zero, carry |-> 0]
                           ELSE LET r == U!Add(ids[i - 1].v, T(1 + i))
                                IN [v |-> r.v, carry |-> IF ids[i - 1].carry = 1 THEN 1 ELSE r.carry]
        offs[i \in 0..n] ==
          IF i = 0 THEN [v |-> U!Zero, bad |-> "none"]
          ELSE LET c == T(1 + 3 * n + i)
                   prevEnd == U!Add(offs[i - 1].v, T(1 + 2 * n + i - 1))
               IN IF offs[i - 1].bad # "none" THEN offs[i - 1]
                  ELSE IF c = U!Zero
                       THEN IF i = 1 THEN [v |-> U!Zero, bad |-> "first_offset_zero"]
                            ELSE IF prevEnd.carry = 1 THEN [v |-> U!Zero, bad |-> "offset_overflow"]
                            ELSE [v |-> prevEnd.v, bad |-> "none"]
                       ELSE [v |-> U!Pred(c), bad |-> "none"]
    IN
    IF \E k \in 1..(1 + 4 * n) : V!TokBad(raw, e, k) THEN Err("varint_overflow")
    ELSE IF ids[n].carry = 1 THEN Err("id_overflow")
    ELSE IF \E i \in 1..n : ~U!IsU32(T(1 + n + i)) \/ ~U!IsU32(T(1 + 2 * n + i)) THEN Err("u32_range")
    ELSE IF \E i \in 1..n : T(1 + 2 * n + i) = U!Zero THEN Err("zero_len")
    ELSE IF offs[n].bad # "none" THEN Err(offs[n].bad)
    ELSE [kind |-> "ok",
          dir  |-> [i \in 1..n |-> Entry(ids[i].v, T(1 + n + i), T(1 + 2 * n + i), offs[i].v)],
          used |-> e[1 + 4 * n]]

\* run of an entry crossing 2^64 is a hazard for readers that expand runs
RunOverflows(E) == \E i \in 1..Len(E) : LastIdR(E[i]).carry = 1

=============================================================================
