SPECIFICATION Spec
CONSTANT Tier = "thorough"
INVARIANT Laws
CHECK_DEADLOCK FALSE
