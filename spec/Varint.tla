------------------------------- MODULE Varint -------------------------------
(***************************************************************************)
(* LEB128 variable-length integers as used by PMTiles v3 directories:      *)
(* 7 payload bits per byte, least significant group first, bit 7 set on    *)
(* every byte but the last.                                                *)
(* All operators are written in "linear style" (function constructors,     *)
(* SelectSeq) so that TLC tokenises hundreds of kilobytes in seconds.      *)
(***************************************************************************)
EXTENDS Naturals, Sequences
LOCAL INSTANCE SequencesExt
U == INSTANCE U64

IsByteSeq(b) == \A i \in 1..Len(b) : b[i] \in 0..255

\* canonical encoding of a 64-bit word
Enc(a) == LET n == U!NumSeptets(a)
          IN [k \in 1..n |-> U!Septet(a, k - 1) + (IF k < n THEN 128 ELSE 0)]

EncLen(a) == U!NumSeptets(a)

(***************************************************************************)
(* Tokeniser.  Ends(b) is the ascending sequence of indices whose byte has *)
(* the continuation bit clear.  Token k spans Start(k) .. Ends[k].          *)
(***************************************************************************)
Ends(b) == SelectSeq([i \in 1..Len(b) |-> i], LAMBDA i : b[i] < 128)

TokStart(ends, k) == IF k = 1 THEN 1 ELSE ends[k - 1] + 1
TokLen(ends, k)   == ends[k] - TokStart(ends, k) + 1

TokSeptets(b, ends, k) ==
  LET s == TokStart(ends, k) IN [j \in 1..TokLen(ends, k) |-> b[s + j - 1] % 128]

\* value of token k (garbage-in: tokens longer than 10 bytes are reported by TokBad)
TokVal(b, ends, k)  == U!FromSeptets(TokSeptets(b, ends, k))
TokBad(b, ends, k)  == U!FromSeptetsOverflow(TokSeptets(b, ends, k))
\* canonical = shortest form: the last septet is non-zero unless the token is the single byte 0
TokCanonical(b, ends, k) == TokLen(ends, k) = 1 \/ b[ends[k]] # 0

\* bytes after the last complete token (an unterminated varint)
Trailing(b, ends) == IF Len(ends) = 0 THEN Len(b) ELSE Len(b) - ends[Len(ends)]

\* read outcome of a reader positioned at the start of token k
ReadOutcome(b, ends, k) ==
  IF k > Len(ends) THEN [kind |-> "eof"]
  ELSE IF TokBad(b, ends, k) THEN [kind |-> "overflow"]
  ELSE [kind |-> "ok", v |-> TokVal(b, ends, k), next |-> ends[k] + 1]

\* the whole byte string as values (only meaningful when no token is bad)
Vals(b) == LET e == Ends(b) IN [k \in 1..Len(e) |-> TokVal(b, e, k)]

=============================================================================
