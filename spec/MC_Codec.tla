------------------------------- MODULE MC_Codec -------------------------------
(***************************************************************************)
(* Bounded instance for the wire codecs.  Each initial state is one case   *)
(* (a directory over boundary value sets, or a header); the invariants are *)
(* the codec laws of DESIGN.md 3.3.  The same module is the B1 generator:  *)
(* with Gen_Dir.cfg the invariant GenDir prints every directory case with  *)
(* the v3 bytes the specification assigns to it, one JSON line per case.   *)
(***************************************************************************)
EXTENDS Integers, Sequences, FiniteSets, TLC, Json
U  == INSTANCE U64
V  == INSTANCE Varint
D  == INSTANCE Directory
Hd == INSTANCE Header
Hb == INSTANCE Hilbert

CONSTANT Tier          \* "quick" | "thorough"

N(n) == U!FromNat(n)
TwoP32   == <<0, 1, 0, 0>>
TwoP32m1 == <<0, 0, 65535, 65535>>
TwoP40   == <<0, 256, 0, 0>>
TwoP62   == <<16384, 0, 0, 0>>
LastValid == U!Pred(Hb!FirstInvalid)

Thorough == Tier = "thorough"

IdSet1  == {N(0), N(1), N(127), N(128), TwoP32, U!Minus(LastValid, TwoP32)}
IdSetR  == IF Thorough THEN {N(0), N(127), TwoP32} ELSE {N(0), N(128)}
GapSet  == IF Thorough THEN {N(0), N(1), N(127), N(128), TwoP40} ELSE {N(0), N(127), TwoP40}
RunSet  == IF Thorough THEN {N(0), N(1), N(2), N(128), TwoP32m1} ELSE {N(0), N(1), TwoP32m1}
RunSetR == IF Thorough THEN {N(0), N(1), N(128)} ELSE {N(1), N(2)}
LenSet  == IF Thorough THEN {N(1), N(127), N(128), N(16384), TwoP32m1} ELSE {N(1), N(128), TwoP32m1}
LenSetR == IF Thorough THEN {N(1), N(128), TwoP32m1} ELSE {N(1), N(127)}
OffSet1 == {N(0), N(1), N(127), TwoP62}
OffSetR == IF Thorough THEN {N(0), N(5), TwoP62} ELSE {N(0), N(5)}
OffModes == 1..6    \* contiguous, zero, equal to previous, back reference, +1 gap, 2^62

MkOff(prev, mode) ==
  CASE mode = 1 -> U!Plus(prev.off, prev.len)
    [] mode = 2 -> U!Zero
    [] mode = 3 -> prev.off
    [] mode = 4 -> IF prev.off = U!Zero THEN U!Zero ELSE U!Pred(prev.off)
    [] mode = 5 -> U!Succ(U!Plus(prev.off, prev.len))
    [] OTHER    -> TwoP62

NextEntry(prev, gap, run, len, mode) ==
  D!Entry(U!Plus(U!Succ(D!LastId(prev)), gap), run, len, MkOff(prev, mode))

Lists1 == { <<D!Entry(id, r, ln, o)>> : id \in IdSet1, r \in RunSet, ln \in LenSet, o \in OffSet1 }
First2 == { D!Entry(id, r, ln, o) : id \in IdSetR, r \in RunSetR, ln \in LenSetR, o \in OffSetR }
Lists2 == { <<e1, NextEntry(e1, g, r, ln, m)>> :
              e1 \in First2, g \in GapSet, r \in RunSet, ln \in LenSet, m \in OffModes }
Lists3 == { <<e1, NextEntry(e1, N(0), N(1), ln, m2),
              NextEntry(NextEntry(e1, N(0), N(1), ln, m2), g, r, N(7), m3)>> :
              e1 \in {D!Entry(N(5), N(2), N(3), N(0)), D!Entry(N(0), N(1), TwoP32m1, TwoP62)},
              ln \in {N(1), N(300)}, m2 \in OffModes, m3 \in OffModes, g \in {N(0), N(127)}, r \in {N(0), N(3)} }
DirCases == {<<>>} \cup Lists1 \cup Lists2 \cup Lists3

(* ---- header cases: one field varied at a time over boundary values ---- *)
U64Bounds == {N(0), N(1), N(127), TwoP32m1, TwoP32, <<32768, 0, 0, 0>>, U!Max}
CoordBounds == {0, 1, -1, 20, 21, -21, 1799999999, -1799999999, 1800000000, -1800000000,
                Hd!I32Max, Hd!I32Min, Hd!I32Max - 1, Hd!I32Min + 1, 123456789}
BaseH == [root_off |-> N(127), root_len |-> N(246), meta_off |-> N(373), meta_len |-> N(22),
          leaf_off |-> N(395), leaf_len |-> N(0), data_off |-> N(395), data_len |-> <<0, 0, 10, 5>>,
          n_addr |-> N(85), n_ent |-> N(84), n_cont |-> N(80), clustered |-> 1, icomp |-> 2,
          tcomp |-> 1, ttype |-> 2, minz |-> 0, maxz |-> 3, min_lon |-> -1800000000,
          min_lat |-> -850511287, max_lon |-> 1800000000, max_lat |-> 850511287, cz |-> 0,
          c_lon |-> 0, c_lat |-> 0]
HdrCases ==
     { [BaseH EXCEPT ![Hd!U64Fields[k]] = b] : k \in 1..11, b \in U64Bounds }
  \cup { [BaseH EXCEPT ![Hd!CoordFields[k]] = c] : k \in 1..6, c \in CoordBounds }
  \cup { [BaseH EXCEPT !.clustered = cl, !.icomp = ic, !.tcomp = tc, !.ttype = tt] :
           cl \in {0, 1}, ic \in Hd!CompressionCodes, tc \in Hd!CompressionCodes, tt \in Hd!TileTypeCodes }
  \cup { [BaseH EXCEPT !.minz = z, !.maxz = 255 - z, !.cz = (z * 7) % 256] : z \in {0, 1, 31, 32, 127, 128, 255} }

VARIABLE c      \* the case: [kind |-> "dir", E |-> ...] | [kind |-> "hdr", h |-> ...]
Init == \/ \E E \in DirCases : c = [kind |-> "dir", E |-> E]
        \/ \E h \in HdrCases : c = [kind |-> "hdr", h |-> h]
InitDir == \E E \in DirCases : c = [kind |-> "dir", E |-> E]
Next == UNCHANGED c
Spec == Init /\ [][Next]_c
SpecDir == InitDir /\ [][Next]_c

(* ---- laws --------------------------------------------------------------- *)
ZeroAt(E, p) == [E EXCEPT ![p].len = U!Zero]

DirLaws(E) ==
  LET raw == D!EncDir(E)  ends == V!Ends(raw)  r == D!DecDir(raw) IN
  /\ D!ValidDir(E)
  /\ V!IsByteSeq(raw)
  /\ Len(ends) = 1 + 4 * Len(E)                                   \* exactly the five columns
  /\ \A k \in 1..Len(ends) : V!TokCanonical(raw, ends, k) /\ ~V!TokBad(raw, ends, k)
  /\ r.kind = "ok" /\ r.dir = E /\ r.used = Len(raw)              \* lossless
  /\ D!ParsesTo(raw, E)                                           \* relation and function agree
  /\ \A F \in {<<>>} \cup {SubSeq(E, 1, Len(E) - 1)} : F # E => ~D!ParsesTo(raw, F)
  \* offset rule: 0 exactly for contiguous entries after index 1, never at index 1
  /\ \A i \in 1..Len(E) : (D!OffCode(E, i) = U!Zero) <=> (i > 1 /\ D!Contig(E, i))
  \* a zero length at any index is refused by the decoder
  /\ \A p \in 1..Len(E) : D!DecDir(D!EncDir(ZeroAt(E, p))) = D!Err("zero_len")
  \* lookup in a single directory: the covering entry and no other
  /\ \A i \in 1..Len(E) :
        /\ D!FindEntry(E, E[i].id) = (IF D!IsLeafPtr(E[i]) THEN 0 ELSE i)
        /\ D!FindEntry(E, D!LastId(E[i])) = (IF D!IsLeafPtr(E[i]) THEN 0 ELSE i)
        /\ (i < Len(E) /\ U!Lt(U!Succ(D!LastId(E[i])), E[i + 1].id))
              => D!FindEntry(E, U!Succ(D!LastId(E[i]))) = 0

HdrLaws(h) ==
  LET b == Hd!EncHeader(h)  d == Hd!DecHeader(b) IN
  /\ Hd!WellTyped(h)
  /\ Len(b) = 127 /\ V!IsByteSeq(b)
  /\ d.kind = "ok" /\ d.h = h
  /\ Hd!EncHeader(d.h) = b
  \* every truncation is "short"; magic / version / enum corruptions are classified
  /\ \A n \in {0, 1, 7, 8, 96, 126} : Hd!DecHeader(SubSeq(b, 1, n)) = Hd!Err("short")
  /\ Hd!DecHeader([b EXCEPT ![1] = 81]).kind = "err"
  /\ Hd!DecHeader([b EXCEPT ![8] = 2]) = Hd!Err("version")
  /\ Hd!DecHeader([b EXCEPT ![98] = 5]) = Hd!Err("compression")
  /\ Hd!DecHeader([b EXCEPT ![99] = 255]) = Hd!Err("compression")
  /\ Hd!DecHeader([b EXCEPT ![100] = 6]) = Hd!Err("tiletype")
  \* trailing bytes are not part of the header
  /\ Hd!DecHeader(b \o <<1, 2, 3>>) = d

Laws == IF c.kind = "dir" THEN DirLaws(c.E) ELSE HdrLaws(c.h)

(* ---- generator ------------------------------------------------------------ *)
GenDir == c.kind = "dir" =>
            PrintT(<<"STIM", ToJson([entries |-> c.E, raw |-> D!EncDir(c.E), kind |-> "gen"])>>)

=============================================================================
