---------------------------- MODULE Trace_Stream ----------------------------
(***************************************************************************)
(* Trace validation of the stream-protocol properties whose verdict is a   *)
(* relation between runs of the same scenario:                             *)
(*   Sched  (C13) every fragmentation / Pending schedule gives the result  *)
(*          and the output bytes of the unfragmented baseline;             *)
(*   Fault  (C15) if the stream fails from operation k on (any k < N),     *)
(*          the call returns an error -- never success, never a panic;     *)
(*   Crash  (C17) the image after any prefix of the recorded operations    *)
(*          either is rejected by the reader or equals the final image.    *)
(* Byte strings are compared through tokens interned by byte equality.     *)
(***************************************************************************)
EXTENDS Integers, Sequences, FiniteSets, TLC, Json, IOUtils
LOCAL INSTANCE SequencesExt

Rec == ndJsonDeserialize(IOEnv.TRACE)
VARIABLES l, nfail
vars == <<l, nfail>>

SchedTags(e) ==
  IF e.base.res # "ok" THEN {"STIMULUS_baseline_failed"}
  ELSE IF \E k \in 1..Len(e.runs) : \E j \in 1..Len(e.runs[k].sched) : e.runs[k].sched[j] < 1 THEN {"STIMULUS_bad_schedule"}
  ELSE (IF \E k \in 1..Len(e.runs) : e.runs[k].res # "ok" THEN {"C13:fragmented_run_failed"} ELSE {})
       \cup (IF \E k \in 1..Len(e.runs) : e.runs[k].res = "ok" /\ e.runs[k].vtok # e.base.vtok
             THEN {"C13:result_depends_on_fragmentation"} ELSE {})
       \cup (IF \E k \in 1..Len(e.runs) : e.runs[k].res = "ok" /\ (e.runs[k].otok # e.base.otok \/ e.runs[k].pos # e.base.pos)
             THEN {"C13:output_depends_on_fragmentation"} ELSE {})

FaultTags(e) ==
  IF e.base_res # "ok" THEN {"STIMULUS_baseline_failed"}
  ELSE IF e.n = 0 THEN {"STIMULUS_no_operations"}
  ELSE IF e.exhaustive /\ ({e.runs[k].k : k \in 1..Len(e.runs)} # 0..(e.n - 1)) THEN {"STIMULUS_fault_points_not_exhaustive"}
  ELSE (IF \E k \in 1..Len(e.runs) : e.runs[k].res = "ok" THEN {"C15:success_reported_although_stream_failed"} ELSE {})
       \cup (IF \E k \in 1..Len(e.runs) : e.runs[k].res \notin {"ok", "err"} THEN {"C15:crash_on_io_failure"} ELSE {})

\* the stream image after the first k recorded operations of a write into a fresh stream (holes read as zero)
PutBytes(img, pos, b) ==
  LET n == IF pos + Len(b) > Len(img) THEN pos + Len(b) ELSE Len(img)
  IN [i \in 1..n |-> IF i > pos /\ i <= pos + Len(b) THEN b[i - pos] ELSE IF i <= Len(img) THEN img[i] ELSE 0]
ImageAfter(ops, k) ==
  FoldLeft(LAMBDA img, j : IF ops[j].k = "w" THEN PutBytes(img, ops[j].pos, ops[j].bytes) ELSE img, << >>, [j \in 1..k |-> j])
\* where the operations are in the trace, "same" is recomputed here and must agree with what the harness reported
SameFlagsOK(e) ==
  LET final == ImageAfter(e.ops, Len(e.ops)) IN
  /\ Len(e.ops) = e.n
  /\ \A r \in 1..Len(e.runs) : e.runs[r].same = (ImageAfter(e.ops, e.runs[r].k) = final)

CrashTags(e) ==
  IF e.base_res # "ok" \/ ~e.final_equals_stream THEN {"STIMULUS_baseline_failed"}
  ELSE IF "ops" \in DOMAIN e /\ ~SameFlagsOK(e) THEN {"TRANSPORT_image_equality_flags_disagree_with_rebuilt_images"}
  ELSE LET last == e.runs[Len(e.runs)] IN
       (IF last.k # e.n \/ last.res # "ok" \/ ~last.same THEN {"C17:complete_output_does_not_open"} ELSE {})
       \cup (IF \E k \in 1..Len(e.runs) : e.runs[k].res = "ok" /\ ~e.runs[k].same
             THEN {"C17:torn_output_opens_as_an_archive"} ELSE {})
       \cup (IF \E k \in 1..Len(e.runs) : e.runs[k].res \notin {"ok", "err"} THEN {"C17:reader_crashes_on_torn_output"} ELSE {})
       \* implementation-shaped comparison with the writer program of MC_IO (HeaderLast, final seek): drift report only
       \cup (IF "shape" \in DOMAIN e /\ Len(e.shape) > 0 /\
                 ( (\E i \in 1..Len(e.shape) : \E j \in (i + 1)..Len(e.shape) :
                       e.shape[i] = <<1, 0>> /\ e.shape[j] = <<1, 1>>)              \* a header-region write before a body write
                   \/ e.shape[Len(e.shape)][1] # 0 )                                 \* the last operation is not a seek
              THEN {"INFO:drift_writer_operation_sequence_differs_from_MC_IO_program"} ELSE {})


(* C12: the observation of a synchronous call and of its asynchronous twin *)
TwinTags(e) ==
  (IF \E k \in 2..Len(e.views) : e.views[k] # e.views[1] THEN {"C12:sync_and_async_observations_differ"} ELSE {})
  \cup (IF \E k \in 1..Len(e.views) : e.views[k].res \notin {"ok", "err"} THEN {"C12:twin_call_crashed_or_failed_to_write"} ELSE {})
  \cup (IF e.none_codec /\ e.bytes_sync # e.bytes_async THEN {"C12:bytes_differ_although_no_codec_is_involved"} ELSE {})

(* C14: compression helpers.  e.streams[k] holds, per emitted stream, the outcome of every decoder *)
MetaKeys == {"src", "zlen", "gz_n", "py"}
StreamOK(e, d) ==
  /\ \A k \in DOMAIN d \ MetaKeys : d[k].res = "ok" /\ d[k].tok = e.in_tok
  /\ ("py" \in DOMAIN d => d.py = "same")
CompTags(e) ==
  IF e.comp = 0
  THEN (IF \A k \in 1..Len(e.writes) : e.writes[k].res = "err" THEN {} ELSE {"C14:unknown_compression_accepted_by_writer"})
       \cup (IF \A k \in 1..Len(e.factories) : e.factories[k].res = "err" THEN {} ELSE {"C14:unknown_compression_accepted"})
       \cup (IF Len(e.streams) = 0 THEN {} ELSE {"C14:unknown_compression_produced_output"})
  ELSE (IF \E k \in 1..Len(e.writes) : e.writes[k].res # "ok" THEN {"C14:compression_failed"} ELSE {})
       \cup (IF Len(e.streams) # Len(e.writes) THEN {"C14:compression_failed"} ELSE {})
       \cup (IF \E k \in 1..Len(e.streams) : ~StreamOK(e, e.streams[k]) THEN {"C14:round_trip_or_standard_decoder_differs"} ELSE {})
FixtureTags(e) == IF e.res = "ok" /\ e.tok = e.want THEN {} ELSE {"C14:fixture_not_decoded"}

Tags(e) == CASE e.ev = "Sched" -> SchedTags(e)
             [] e.ev = "Twin" -> TwinTags(e)
             [] e.ev = "Comp" -> CompTags(e)
             [] e.ev = "CompFixture" -> FixtureTags(e)
             [] e.ev = "Fault" -> FaultTags(e)
             [] e.ev = "Crash" -> CrashTags(e)
             [] OTHER -> {"STIMULUS_unknown_event"}

Init == l = 1 /\ nfail = 0
Step == /\ l <= Len(Rec)
        /\ LET tags == Tags(Rec[l]) IN
             /\ \A t \in tags : PrintT(<<"FAIL", l, Rec[l].ev, t>>)
             /\ nfail' = nfail + Cardinality(tags)
        /\ l' = l + 1
Next == Step
Spec == Init /\ [][Next]_vars
Finished == (l = Len(Rec) + 1) => PrintT(<<"DONE", Len(Rec), nfail>>)
=============================================================================
