------------------------------ MODULE Malformed ------------------------------
(***************************************************************************)
(* Total verdict on arbitrary bytes presented as an archive whose          *)
(* internal compression is "none" (C08).  Every hazard of the format is a  *)
(* named outcome; nothing is ever "stuck":                                 *)
(*   [kind |-> "invalid", class |-> c]       the readers may answer Err     *)
(*   [kind |-> "valid"]                      structurally readable          *)
(*   [kind |-> "overbudget"]                 declared runs / directory      *)
(*        visits exceed Budget: outside the claim of C08 (resource use      *)
(*        proportional to declared run lengths is by design)                *)
(*   [kind |-> "opaque"]                     directories are compressed:    *)
(*        TLA+ cannot look inside (treated as inside the claim)             *)
(* The walk is the reference reader's: every pointer is followed, nesting   *)
(* is cut at Archive!MaxDepth.                                              *)
(***************************************************************************)
EXTENDS Integers, Sequences, FiniteSets
U  == INSTANCE U64
D  == INSTANCE Directory
Hd == INSTANCE Header
A  == INSTANCE Archive

Budget == 200000
N(n) == U!FromNat(n)

\* the bytes [off, off+len) of b, or "none" when the range is not inside b
InFile(b, off, len) == U!IsSmall(off) /\ U!IsSmall(len) /\ U!ToNat(off) + U!ToNat(len) <= Len(b)
Slice(b, off, len) == SubSeq(b, U!ToNat(off) + 1, U!ToNat(off) + U!ToNat(len))

\* walk result: [tiles |-> U64 (saturating count of addressed tiles), dirs |-> Nat, bad |-> class or "none"]
Sat(a, b) == LET r == U!Add(a, b) IN IF r.carry = 1 THEN U!Max ELSE r.v
Worse(x, y) == IF x # "none" THEN x ELSE y

\* sum of the run-length column with every value taken modulo 2^32 (only called when the column exists)
V == INSTANCE Varint
TruncatedRuns(raw) ==
  LET e == V!Ends(raw)
      n == U!ToNat(V!TokVal(raw, e, 1))
      S[i \in 0..n] == IF i = 0 THEN U!Zero
                       ELSE LET t == V!TokVal(raw, e, 1 + n + i) IN Sat(S[i - 1], <<0, 0, t[3], t[4]>>)
  IN S[n]

RECURSIVE Walk(_, _, _, _, _)
Walk(b, h, off, len, depth) ==
  IF depth > A!MaxDepth THEN [tiles |-> U!Zero, dirs |-> 0, bad |-> "too_deep"]
  ELSE IF ~InFile(b, off, len) THEN [tiles |-> U!Zero, dirs |-> 1, bad |-> "directory_outside_file"]
  ELSE LET r == D!DecDir(Slice(b, off, len)) IN
       IF r.kind = "err"
       THEN \* a reader that truncates over-long u32 fields still expands the truncated runs
            [tiles |-> IF r.class = "u32_range" THEN TruncatedRuns(Slice(b, off, len)) ELSE U!Zero, dirs |-> 1, bad |-> r.class]
       ELSE LET E == r.dir
                Sub(i) == IF D!IsLeafPtr(E[i])
                          THEN LET o == U!Add(h.leaf_off, E[i].off) IN
                               IF o.carry = 1 THEN [tiles |-> U!Zero, dirs |-> 0, bad |-> "leaf_offset_overflow"]
                               ELSE Walk(b, h, o.v, E[i].len, depth + 1)
                          ELSE [tiles |-> E[i].run, dirs |-> 0,
                                bad |-> IF D!LastIdR(E[i]).carry = 1 THEN "run_crosses_2p64"
                                        ELSE IF U!Add(h.data_off, E[i].off).carry = 1 THEN "tile_offset_overflow"
                                        ELSE "none"]
                Acc[i \in 0..Len(E)] ==
                   IF i = 0 THEN [tiles |-> U!Zero, dirs |-> 1, bad |-> "none"]
                   ELSE LET s == Sub(i) IN
                        [tiles |-> Sat(Acc[i - 1].tiles, s.tiles), dirs |-> Acc[i - 1].dirs + s.dirs,
                         bad |-> Worse(Acc[i - 1].bad, s.bad)]
            IN Acc[Len(E)]

Verdict(b) ==
  LET d == Hd!DecHeader(b) IN
  IF d.kind = "err" THEN [kind |-> "invalid", class |-> "header_" \o d.class]
  ELSE LET h == d.h IN
       IF h.icomp = 0 THEN [kind |-> "invalid", class |-> "unknown_internal_compression"]
       ELSE IF h.icomp # 1 THEN [kind |-> "opaque"]
       ELSE LET w == Walk(b, h, h.root_off, h.root_len, 1) IN
            IF U!Lt(N(Budget), w.tiles) \/ w.dirs > Budget THEN [kind |-> "overbudget"]
            ELSE IF w.bad # "none" THEN [kind |-> "invalid", class |-> w.bad]
            ELSE [kind |-> "valid"]
=============================================================================
