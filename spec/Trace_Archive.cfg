SPECIFICATION Spec
INVARIANT Finished
INVARIANT ModelInv
CHECK_DEADLOCK FALSE
