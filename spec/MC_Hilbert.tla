------------------------------ MODULE MC_Hilbert ------------------------------
(***************************************************************************)
(* Bounded instance for tile IDs: every tile of every zoom <= MaxZ is one   *)
(* initial state; the invariant states the structural theorems of C07 and  *)
(* that the literal reference algorithm and the transducer agree.          *)
(***************************************************************************)
EXTENDS Integers, Sequences, TLC
U == INSTANCE U64
H == INSTANCE Hilbert

CONSTANT MaxZ

N(n) == U!FromNat(n)

\* the vectors published with the v3 specification / used by its reference implementations
ASSUME H!ZxyToId(0, 0, 0) = N(0)
ASSUME H!ZxyToId(1, 0, 0) = N(1) /\ H!ZxyToId(1, 0, 1) = N(2)
ASSUME H!ZxyToId(1, 1, 1) = N(3) /\ H!ZxyToId(1, 1, 0) = N(4)
ASSUME H!ZxyToId(2, 0, 0) = N(5)
ASSUME H!ZxyToId(12, 3423, 1763) = N(19078479)
ASSUME H!LitZxyToId(12, 3423, 1763) = N(19078479)
ASSUME H!ZxyToId(31, 2147483647, 0) = U!Pred(H!FirstInvalid)
ASSUME H!FirstInvalid = <<21845, 21845, 21845, 21845>>
ASSUME \A z \in 0..31 : U!Plus(H!Base(z), H!ZoomCount(z)) = H!Base(z + 1)
ASSUME H!IdToZxyBits(H!FirstInvalid).ok = FALSE /\ H!IdToZxyBits(U!Max).ok = FALSE
ASSUME H!IdToZxyBits(U!Pred(H!FirstInvalid)).z = 31

VARIABLE p
\* two stages so that TLC's workers share the enumeration: Init fixes (z, x), Next picks y
Init == \E z \in 0..MaxZ : \E x \in 0..(H!Pow2(z) - 1) : p = <<z, x, -1>>
Next == p[3] = -1 /\ \E y \in 0..(H!Pow2(p[1]) - 1) : p' = <<p[1], p[2], y>>
Spec == Init /\ [][Next]_p

Abs(v) == IF v < 0 THEN -v ELSE v

Theorems == p[3] >= 0 =>
  LET z == p[1]  x == p[2]  y == p[3]
      d   == H!TrDigits(z, x, y)
      id  == H!ZxyToId(z, x, y)
      inv == H!IdToZxyBits(id)
      pos == U!Minus(id, H!Base(z))
  IN
  /\ H!InGrid(z, x, y)
  /\ H!LitDigits(z, x, y) = d                                     \* reference algorithm = transducer
  /\ H!LitZxyToId(z, x, y) = id
  /\ U!Le(H!Base(z), id) /\ U!Lt(id, H!Base(z + 1))               \* one contiguous block per zoom, after lower zooms
  /\ inv.ok /\ inv.z = z /\ inv.xb = H!Bits(x, z) /\ inv.yb = H!Bits(y, z)     \* converts back exactly (=> injective)
  /\ H!LitDigitsToXYBits(d, z) = <<H!Bits(x, z), H!Bits(y, z)>>   \* literal inverse agrees
  /\ H!ZoomOf(id) = z
  \* consecutive IDs inside a zoom are edge-adjacent tiles
  /\ U!Lt(U!Succ(id), H!Base(z + 1)) =>
        LET nx == H!IdToZxyBits(U!Succ(id)) IN
          /\ nx.ok /\ nx.z = z
          /\ Abs(H!BitsToNat(nx.xb, z) - x) + Abs(H!BitsToNat(nx.yb, z) - y) = 1
  \* the four children occupy one aligned block of four positions: child position div 4 = parent position
  /\ z < MaxZ =>
        \A dx \in {0, 1} : \A dy \in {0, 1} :
          LET cd == H!TrDigits(z + 1, 2 * x + dx, 2 * y + dy) IN SubSeq(cd, 1, z) = d
  /\ H!TrDigitsBitsRef(H!Bits(x, z), H!Bits(y, z), z) = d /\ H!TrInvBitsRef(d, z) = H!TrInvBits(d, z)
  /\ H!ZxyToIdFast(z, x, y) = id                                  \* table-driven variant agrees
  /\ H!ZxyToIdU(z, N(x), N(y)) = id                               \* limb-coordinate variant agrees

=============================================================================
