------------------------------ MODULE MC_Hazards ------------------------------
(***************************************************************************)
(* Generator of one crafted archive per hazard class of C08.  Each case is  *)
(* [class, root (uncompressed root directory bytes), leaves (sequence of    *)
(* uncompressed leaf byte strings, laid out back to back in the leaf        *)
(* section), patch (header fields to overwrite)].  The bytes are composed   *)
(* with the specification's own varint encoder, so hostile values are       *)
(* exact.  The invariant states, per case, the verdict the specification    *)
(* assigns to the directory bytes; GenHazards prints the cases.             *)
(***************************************************************************)
EXTENDS Integers, Sequences, TLC, Json
LOCAL INSTANCE SequencesExt
U == INSTANCE U64
V == INSTANCE Varint
D == INSTANCE Directory

N(n) == U!FromNat(n)
Vi(a) == V!Enc(a)
Cat(ss) == FlattenSeq(ss)
TwoP31 == <<0, 0, 32768, 0>>
TwoP32 == <<0, 1, 0, 0>>
TwoP40 == <<0, 256, 0, 0>>
TwoP60 == <<4096, 0, 0, 0>>
TwoP63 == <<32768, 0, 0, 0>>
NearMax == <<65535, 65535, 65535, 65534>>

\* one well-formed tile entry list as bytes: count, ids, runs, lengths, offsets
Dir(ids, runs, lens, offs) == Cat(<<Vi(N(Len(ids)))>> \o [i \in 1..Len(ids) |-> Vi(ids[i])] \o [i \in 1..Len(runs) |-> Vi(runs[i])]
                                  \o [i \in 1..Len(lens) |-> Vi(lens[i])] \o [i \in 1..Len(offs) |-> Vi(offs[i])])
OneTile == Dir(<<N(5)>>, <<N(1)>>, <<N(4)>>, <<N(1)>>)
\* a directory that is a single pointer (run 0) to the leaf at (off, len) -- offset field is off + 1
Ptr(id, off, len) == Dir(<<id>>, <<U!Zero>>, <<len>>, <<U!Succ(off)>>)
Ptr2(off1, len1, off2, len2) == Dir(<<N(1), N(9)>>, <<U!Zero, U!Zero>>, <<len1, len2>>, <<U!Succ(off1), U!Succ(off2)>>)
NoPatch == [none |-> U!Zero]

\* chain of k leaves: leaf j points to leaf j+1, the last one holds a tile
ChainLeaves(k) ==
  LET last == OneTile
      L[j \in 1..k] == IF j = k THEN last ELSE Ptr(N(5), N(j * 64), N(64))
      Pad(b) == b \o [i \in 1..(64 - Len(b)) |-> 0]
  IN [j \in 1..k |-> Pad(L[j])]

Cases == <<
  [class |-> "valid_one_tile", root |-> OneTile, leaves |-> <<>>, patch |-> NoPatch],
  [class |-> "count_2p31", root |-> Vi(TwoP31) \o OneTile, leaves |-> <<>>, patch |-> NoPatch],
  [class |-> "count_2p40", root |-> Vi(TwoP40) \o OneTile, leaves |-> <<>>, patch |-> NoPatch],
  [class |-> "count_2p60", root |-> Vi(TwoP60) \o OneTile, leaves |-> <<>>, patch |-> NoPatch],
  [class |-> "count_max", root |-> Vi(U!Max) \o OneTile, leaves |-> <<>>, patch |-> NoPatch],
  [class |-> "count_exceeds_input_by_one", root |-> Dir(<<N(5), N(6)>>, <<N(1), N(1)>>, <<N(4), N(4)>>, <<N(1)>>), leaves |-> <<>>, patch |-> NoPatch],
  [class |-> "id_sum_overflow", root |-> Dir(<<NearMax, N(7)>>, <<N(1), N(1)>>, <<N(4), N(4)>>, <<N(1), N(0)>>), leaves |-> <<>>, patch |-> NoPatch],
  [class |-> "first_offset_zero", root |-> Dir(<<N(5)>>, <<N(1)>>, <<N(4)>>, <<N(0)>>), leaves |-> <<>>, patch |-> NoPatch],
  [class |-> "contiguous_offset_overflow", root |-> Dir(<<N(5), N(1)>>, <<N(1), N(1)>>, <<N(9), N(4)>>, <<U!Max, N(0)>>), leaves |-> <<>>, patch |-> NoPatch],
  [class |-> "run_crossing_2p64", root |-> Dir(<<NearMax>>, <<N(5)>>, <<N(4)>>, <<N(1)>>), leaves |-> <<>>, patch |-> NoPatch],
  [class |-> "last_id_max", root |-> Dir(<<U!Max>>, <<N(1)>>, <<N(4)>>, <<N(1)>>), leaves |-> <<>>, patch |-> NoPatch],
  [class |-> "zero_length_entry", root |-> Dir(<<N(5)>>, <<N(1)>>, <<N(0)>>, <<N(1)>>), leaves |-> <<>>, patch |-> NoPatch],
  [class |-> "varint_11_bytes", root |-> <<1>> \o [i \in 1..10 |-> 255] \o <<1, 1, 4, 1>>, leaves |-> <<>>, patch |-> NoPatch],
  [class |-> "length_2p32_plus_5", root |-> Dir(<<N(5)>>, <<N(1)>>, <<U!Plus(TwoP32, N(5))>>, <<N(1)>>), leaves |-> <<>>, patch |-> NoPatch],
  [class |-> "run_2p32_plus_1", root |-> Dir(<<N(5)>>, <<U!Succ(TwoP32)>>, <<N(4)>>, <<N(1)>>), leaves |-> <<>>, patch |-> NoPatch],
  [class |-> "truncated_directory", root |-> SubSeq(OneTile, 1, 3), leaves |-> <<>>, patch |-> NoPatch],
  [class |-> "empty_root_bytes", root |-> <<>>, leaves |-> <<>>, patch |-> NoPatch],
  [class |-> "offset_2p63", root |-> Dir(<<N(5)>>, <<N(1)>>, <<N(4)>>, <<U!Succ(TwoP63)>>), leaves |-> <<>>, patch |-> NoPatch],
  [class |-> "tile_data_offset_near_2p64", root |-> Dir(<<N(5)>>, <<N(1)>>, <<N(4)>>, <<N(100)>>), leaves |-> <<>>,
     patch |-> [data_off |-> <<65535, 65535, 65535, 65500>>]],
  [class |-> "leaf_offset_near_2p64", root |-> Ptr(N(5), N(100), N(8)), leaves |-> <<>>,
     patch |-> [leaf_off |-> <<65535, 65535, 65535, 65500>>]],
  [class |-> "leaf_pointer_outside_section", root |-> Ptr(N(5), N(5000), N(64)), leaves |-> <<>>, patch |-> NoPatch],
  [class |-> "leaf_pointer_self_cycle", root |-> Ptr(N(5), N(0), N(64)), leaves |-> << Ptr(N(5), N(0), N(64)) \o [i \in 1..58 |-> 0] >>, patch |-> NoPatch],
  [class |-> "leaf_pointer_two_cycle", root |-> Ptr(N(5), N(0), N(64)),
     leaves |-> << Ptr(N(5), N(64), N(64)) \o [i \in 1..58 |-> 0], Ptr(N(5), N(0), N(64)) \o [i \in 1..58 |-> 0] >>, patch |-> NoPatch],
  [class |-> "self_cycle_fanout_2", root |-> Ptr(N(5), N(0), N(64)),
     leaves |-> << Ptr2(N(0), N(64), N(0), N(64)) \o [i \in 1..55 |-> 0] >>, patch |-> NoPatch],
  [class |-> "chain_of_3_leaves", root |-> Ptr(N(5), N(0), N(64)), leaves |-> ChainLeaves(3), patch |-> NoPatch],
  [class |-> "chain_of_10_leaves", root |-> Ptr(N(5), N(0), N(64)), leaves |-> ChainLeaves(10), patch |-> NoPatch],
  [class |-> "chain_of_100_leaves", root |-> Ptr(N(5), N(0), N(64)), leaves |-> ChainLeaves(100), patch |-> NoPatch],
  [class |-> "chain_of_1000_leaves", root |-> Ptr(N(5), N(0), N(64)), leaves |-> ChainLeaves(1000), patch |-> NoPatch],
  [class |-> "overbudget_run_2p32_minus_1", root |-> Dir(<<N(5)>>, <<<<0, 0, 65535, 65535>>>>, <<N(4)>>, <<N(1)>>), leaves |-> <<>>, patch |-> NoPatch],
  [class |-> "root_length_beyond_file", root |-> OneTile, leaves |-> <<>>, patch |-> [root_len |-> TwoP40]],
  [class |-> "metadata_length_beyond_file", root |-> OneTile, leaves |-> <<>>, patch |-> [meta_len |-> TwoP60]],
  [class |-> "metadata_offset_max", root |-> OneTile, leaves |-> <<>>, patch |-> [meta_off |-> U!Max]],
  [class |-> "root_offset_max", root |-> OneTile, leaves |-> <<>>, patch |-> [root_off |-> U!Max]],
  \* parseable but ill-ordered directories: duplicate IDs, a pointer at ID 0 followed by an entry with the same ID,
  \* overlapping runs, a tile whose end (data offset + offset + length) passes 2^64 although its start does not
  [class |-> "duplicate_ids", root |-> Dir(<<N(5), N(0)>>, <<N(1), N(1)>>, <<N(4), N(4)>>, <<N(1), N(0)>>), leaves |-> <<>>, patch |-> NoPatch],
  [class |-> "pointer_at_zero_then_same_id", root |-> Dir(<<N(0), N(0)>>, <<N(0), N(1)>>, <<N(64), N(4)>>, <<N(1), N(1)>>),
     leaves |-> << OneTile \o [i \in 1..(64 - Len(OneTile)) |-> 0] >>, patch |-> NoPatch],
  [class |-> "pointer_then_pointer_same_id", root |-> Dir(<<N(3), N(0)>>, <<N(0), N(0)>>, <<N(64), N(64)>>, <<N(1), N(1)>>),
     leaves |-> << OneTile \o [i \in 1..(64 - Len(OneTile)) |-> 0] >>, patch |-> NoPatch],
  [class |-> "overlapping_runs", root |-> Dir(<<N(5), N(1)>>, <<N(9), N(9)>>, <<N(4), N(4)>>, <<N(1), N(0)>>), leaves |-> <<>>, patch |-> NoPatch],
  [class |-> "tile_end_passes_2p64", root |-> Dir(<<N(5)>>, <<N(1)>>, <<N(9)>>, <<N(101)>>), leaves |-> <<>>,
     patch |-> [data_off |-> <<65535, 65535, 65535, 65432>>]],
  [class |-> "tile_length_u32_max_at_end", root |-> Dir(<<N(5)>>, <<N(1)>>, <<<<0, 0, 65535, 65535>>>>, <<N(1)>>), leaves |-> <<>>, patch |-> NoPatch],
  [class |-> "count_2p60_and_root_length_2p63", root |-> Vi(TwoP60) \o OneTile, leaves |-> <<>>, patch |-> [root_len |-> TwoP63]],
  [class |-> "count_max_and_root_length_near_max", root |-> Vi(U!Max) \o OneTile, leaves |-> <<>>,
     patch |-> [root_len |-> <<65535, 65535, 65535, 65000>>]],
  [class |-> "count_2p60_and_metadata_length_2p63", root |-> Vi(TwoP60) \o OneTile, leaves |-> <<>>, patch |-> [meta_len |-> TwoP63]],
  [class |-> "leaf_length_u32_max", root |-> Dir(<<N(5)>>, <<N(0)>>, <<<<0, 0, 65535, 65535>>>>, <<N(1)>>), leaves |-> <<>>, patch |-> NoPatch]
>>

(* ---- exhaustive small scope: every directory of 1 or 2 entries whose 4 columns range over boundary tokens ---- *)
TokId  == {N(0), N(1), N(2), U!Max}
TokRun == {N(0), N(1), N(2)}
TokLen == {N(0), N(1), N(64)}
TokOff == {N(0), N(1), N(2), U!Max}
OneLeaf == << OneTile \o [i \in 1..(64 - Len(OneTile)) |-> 0] >>
TokenCases ==
  { [class |-> "tokens", root |-> Dir(ids, runs, lens, offs), leaves |-> OneLeaf, patch |-> NoPatch] :
      ids \in [1..1 -> TokId], runs \in [1..1 -> TokRun], lens \in [1..1 -> TokLen], offs \in [1..1 -> TokOff] }
  \cup
  { [class |-> "tokens", root |-> Dir(ids, runs, lens, offs), leaves |-> OneLeaf, patch |-> NoPatch] :
      ids \in [1..2 -> TokId], runs \in [1..2 -> TokRun], lens \in [1..2 -> TokLen], offs \in [1..2 -> TokOff] }

VARIABLE k
Init == k \in 1..Len(Cases)
Next == UNCHANGED k
Spec == Init /\ [][Next]_k

\* the specification's own decoder classifies the directory bytes (sanity of the generator)
Expected(c) ==
  CASE c.class \in {"valid_one_tile", "run_crossing_2p64", "last_id_max", "offset_2p63", "tile_data_offset_near_2p64",
                    "overbudget_run_2p32_minus_1", "root_length_beyond_file", "metadata_length_beyond_file",
                    "metadata_offset_max", "root_offset_max", "leaf_offset_near_2p64", "leaf_pointer_outside_section",
                    "leaf_pointer_self_cycle", "leaf_pointer_two_cycle", "self_cycle_fanout_2", "chain_of_3_leaves",
                    "chain_of_10_leaves", "chain_of_100_leaves", "chain_of_1000_leaves", "duplicate_ids",
                    "pointer_at_zero_then_same_id", "pointer_then_pointer_same_id", "overlapping_runs",
                    "tile_end_passes_2p64", "tile_length_u32_max_at_end", "leaf_length_u32_max"} -> "ok"
    [] c.class \in {"count_2p31", "count_2p40", "count_2p60", "count_max", "count_exceeds_input_by_one",
                    "count_2p60_and_root_length_2p63", "count_max_and_root_length_near_max",
                    "count_2p60_and_metadata_length_2p63"} -> "count_gt_input"
    [] c.class = "id_sum_overflow" -> "id_overflow"
    [] c.class = "first_offset_zero" -> "first_offset_zero"
    [] c.class = "contiguous_offset_overflow" -> "offset_overflow"
    [] c.class = "zero_length_entry" -> "zero_len"
    [] c.class = "varint_11_bytes" -> "varint_overflow"
    [] c.class \in {"length_2p32_plus_5", "run_2p32_plus_1"} -> "u32_range"
    [] c.class \in {"truncated_directory", "empty_root_bytes"} -> "eof_or_count"
Classified ==
  LET c == Cases[k]  r == D!DecDir(c.root) IN
  CASE Expected(c) = "ok" -> r.kind = "ok"
    [] Expected(c) = "eof_or_count" -> r.kind = "err" /\ r.class \in {"eof", "count_gt_input"}
    [] OTHER -> r.kind = "err" /\ r.class = Expected(c)
GenHazards == PrintT(<<"STIM", ToJson(Cases[k])>>)

\* second generator: the token enumeration (k ranges over the set itself)
InitTok == k \in TokenCases
SpecTok == InitTok /\ [][Next]_k
\* the specification's decoder is total on every one of them
TotalOnTokens == D!DecDir(k.root).kind \in {"ok", "err"}
GenTokens == PrintT(<<"STIM", ToJson(k)>>)
=============================================================================
