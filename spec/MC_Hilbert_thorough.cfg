SPECIFICATION Spec
CONSTANT MaxZ = 8
INVARIANT Theorems
CHECK_DEADLOCK FALSE
