SPECIFICATION Spec
CONSTANT MaxZ = 9
INVARIANT Theorems
CHECK_DEADLOCK FALSE
