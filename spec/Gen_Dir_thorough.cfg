SPECIFICATION SpecDir
CONSTANT Tier = "thorough"
INVARIANT GenDir
CHECK_DEADLOCK FALSE
