SPECIFICATION Spec
INVARIANT LayoutOK
INVARIANT GenForeign
CHECK_DEADLOCK FALSE
