SPECIFICATION Spec
CONSTANTS MaxP = 2
  Variant = "absolute"
INVARIANT PrefixUntouched
INVARIANT Placement
CHECK_DEADLOCK FALSE
