-------------------------------- MODULE MC_IO --------------------------------
(***************************************************************************)
(* The archive writer and reader as programs over a seekable stream, at    *)
(* the granularity of single stream operations.  Sections are scaled to    *)
(* one or two cells; the header is H = 2 cells that both carry the offset  *)
(* table, so a header is valid only if it was written completely.          *)
(*                                                                         *)
(* Environment choices explored exhaustively by TLC:                        *)
(*   s      start position of the stream (0..MaxP), stream prefilled with   *)
(*          marker cells up to s + 1;                                       *)
(*   spill  whether the first root attempt is over budget (seek-back path); *)
(*   short  every write/read transfers one cell per operation;              *)
(*   crash  the process stops after any operation (C17);                    *)
(*   fault  any one operation fails, and so do all later ones (C15).        *)
(*                                                                         *)
(* Variant = "relative" is the intended writer (everything relative to the  *)
(* recorded start position); "absolute" is the deviation the pinned tree    *)
(* had (header and final seek at absolute offsets): the check runs it too   *)
(* and expects PrefixUntouched to fail -- a control that the model bites.   *)
(***************************************************************************)
EXTENDS Integers, Sequences, FiniteSets, TLC

CONSTANTS MaxP, Variant
H == 2                                     \* header cells

(* ---- layout (relative offsets, in cells) ------------------------------------ *)
RootLen(spill) == 1
FirstAttemptLen(spill) == IF spill THEN 2 ELSE 1
LeafLen(spill) == IF spill THEN 1 ELSE 0
Table(spill) == [root |-> H, rootlen |-> 1, meta |-> H + 1, leaf |-> H + 2, leaflen |-> LeafLen(spill),
                 data |-> H + 2 + LeafLen(spill), datalen |-> 1]
EndOf(spill) == Table(spill).data + 1

\* cells are uniformly typed triples <<tag, index, table>> (TLC cannot compare strings with tuples)
NoTab == [root |-> 0, rootlen |-> 0, meta |-> 0, leaf |-> 0, leaflen |-> 0, data |-> 0, datalen |-> 0]
C(tag) == <<tag, 0, NoTab>>
HdrCell(i, spill) == <<"h", i, Table(spill)>>

(* ---- the writer's program: a sequence of stream operations ------------------- *)
\* [k |-> "pos"] | [k |-> "seek", to |-> absolute target] | [k |-> "write", cells |-> seq] | [k |-> "flush"]
Base(s) == IF Variant = "relative" THEN s ELSE 0       \* where the deviation puts header and end
WriterOps(s, spill) ==
     << [k |-> "pos"], [k |-> "seek", to |-> s + H] >>
  \o << [k |-> "write", cells |-> IF spill THEN <<C("r1"), C("r1")>> ELSE <<C("root")>>], [k |-> "pos"] >>
  \o (IF spill THEN << [k |-> "seek", to |-> s + H], [k |-> "write", cells |-> <<C("ptrs")>>], [k |-> "pos"] >> ELSE << >>)
  \o << [k |-> "write", cells |-> <<C("meta")>>], [k |-> "flush"], [k |-> "pos"] >>
  \o << [k |-> "write", cells |-> IF spill THEN <<C("leaf")>> ELSE << >>], [k |-> "pos"] >>
  \o << [k |-> "write", cells |-> <<C("data")>>] >>
  \o << [k |-> "seek", to |-> Base(s)],
        [k |-> "write", cells |-> <<HdrCell(1, spill), HdrCell(2, spill)>>],
        [k |-> "seek", to |-> Base(s) + EndOf(spill)] >>

(* ---- the reader, as a function of an image and the position it is given -------- *)
Cell(image, at) == IF at + 1 <= Len(image) /\ at >= 0 THEN image[at + 1] ELSE C("eof")
IsHdr(c, i) == c[1] = "h" /\ c[2] = i

\* result of opening the archive found at position `at`: "err" or the logical content it yields
ErrO == [dirs |-> "err", data |-> -1]
Open(image, at) ==
  LET c1 == Cell(image, at)  c2 == Cell(image, at + 1) IN
  IF ~(IsHdr(c1, 1) /\ IsHdr(c2, 2) /\ c1[3] = c2[3]) THEN ErrO                       \* torn or missing header
  ELSE LET t == c1[3]
           root == Cell(image, at + t.root)
           meta == Cell(image, at + t.meta)
           leaf == IF t.leaflen = 0 THEN C("none") ELSE Cell(image, at + t.leaf)
       IN IF meta # C("meta") THEN ErrO
          ELSE IF t.leaflen = 0 THEN (IF root = C("root") THEN [dirs |-> "root", data |-> at + t.data] ELSE ErrO)
          ELSE IF root = C("ptrs") /\ leaf = C("leaf") THEN [dirs |-> "ptrs+leaf", data |-> at + t.data] ELSE ErrO

\* cells the reader touches while opening (header, metadata, directories) -- never tile data
OpenReads(image, at) ==
  LET c1 == Cell(image, at) IN
  {at, at + 1} \cup (IF IsHdr(c1, 1) THEN {at + c1[3].meta, at + c1[3].root} \cup
                        (IF c1[3].leaflen > 0 THEN {at + c1[3].leaf} ELSE {}) ELSE {})

VARIABLES s, spill, short, img, pos, pc, sub, wstate, opcount, failFrom,
          rstate, rpc, rgot, rreads, rops, rfail, rshort, rres
\* pc: index of the next writer op; sub: cells of the current write already transferred
\* wstate: "run" | "done" | "err" | "crashed"
wvars == <<s, spill, short, img, pos, pc, sub, wstate, opcount, failFrom>>
rvars == <<rstate, rpc, rgot, rreads, rops, rfail, rshort, rres>>
vars == <<wvars, rvars>>

Prefill(p) == [i \in 1..(p + 1) |-> C("x")]            \* marker cells before (and one after) the start
Put(image, at, c) ==                                 \* write one cell at 0-based position `at`, holes read as "z"
  LET n == IF at + 1 > Len(image) THEN at + 1 ELSE Len(image)
  IN [i \in 1..n |-> IF i = at + 1 THEN c ELSE IF i <= Len(image) THEN image[i] ELSE C("z")]

Init == /\ s \in 0..MaxP /\ spill \in BOOLEAN /\ short \in BOOLEAN
        /\ img = (IF s = 0 THEN << >> ELSE Prefill(s)) /\ pos = s
        /\ pc = 1 /\ sub = 0 /\ wstate = "run" /\ opcount = 0
        /\ failFrom \in {-1} \cup 0..24             \* -1: no fault
        /\ rstate = "idle" /\ rpc = "hdr" /\ rgot = << >> /\ rreads = {} /\ rops = 0 /\ rres = ErrO
        /\ rfail \in {-1} \cup 0..9 /\ rshort \in BOOLEAN

Ops == WriterOps(s, spill)
Failing == failFrom >= 0 /\ opcount >= failFrom

\* one stream operation of the writer
Step ==
  /\ wstate = "run" /\ pc <= Len(Ops)
  /\ opcount' = opcount + 1
  /\ IF Failing
     THEN /\ wstate' = "err" /\ UNCHANGED <<img, pos, pc, sub>>             \* the error is propagated (?)
     ELSE LET op == Ops[pc] IN
          CASE op.k = "seek"  -> /\ pos' = op.to /\ pc' = pc + 1 /\ UNCHANGED <<img, sub>>
                                 /\ wstate' = IF pc = Len(Ops) THEN "done" ELSE "run"
            [] op.k \in {"pos", "flush"} -> /\ pc' = pc + 1 /\ UNCHANGED <<img, pos, sub>> /\ wstate' = "run"
            [] op.k = "write" ->
                 LET n == Len(op.cells)
                     k == IF n = 0 THEN 0 ELSE IF short THEN 1 ELSE n - sub     \* cells moved by this call
                     newimg[j \in 0..k] == IF j = 0 THEN img ELSE Put(newimg[j - 1], pos + j - 1, op.cells[sub + j])
                 IN /\ img' = newimg[k] /\ pos' = pos + k
                    /\ IF sub + k >= n THEN pc' = pc + 1 /\ sub' = 0 ELSE pc' = pc /\ sub' = sub + k
                    /\ wstate' = "run"
  /\ UNCHANGED <<s, spill, short, failFrom>> /\ UNCHANGED rvars

Crash == /\ wstate = "run" /\ wstate' = "crashed"
         /\ UNCHANGED <<s, spill, short, img, pos, pc, sub, opcount, failFrom>> /\ UNCHANGED rvars


(* ---- the reader as a program over the stream (runs on the final or on a torn image) ---------- *)
\* It is handed the stream positioned at the archive's start s and reads: the H header cells
\* (possibly one cell per read), then -- each after a seek -- the metadata cell, the root cell and,
\* if the root holds pointers, the leaf cell.  Every read position is recorded in rreads.
RFailing == rfail >= 0 /\ rops >= rfail
RStart == /\ wstate \in {"done", "crashed"} /\ rstate = "idle"
          /\ rstate' = "run" /\ UNCHANGED <<rpc, rgot, rreads, rops, rfail, rshort, rres>> /\ UNCHANGED wvars
RFinish(res) == rstate' = (IF res = ErrO THEN "err" ELSE "ok") /\ rres' = res
RStep ==
  /\ rstate = "run"
  /\ rops' = rops + 1
  /\ IF RFailing THEN /\ rstate' = "err" /\ rres' = ErrO /\ UNCHANGED <<rpc, rgot, rreads>>
     ELSE
     CASE rpc = "hdr" ->
            LET k == IF rshort THEN 1 ELSE H - Len(rgot)
                new == rgot \o [j \in 1..k |-> Cell(img, s + Len(rgot) + j - 1)]
            IN /\ rreads' = rreads \cup {s + Len(rgot) + j - 1 : j \in 1..k}
               /\ rgot' = new
               /\ IF Len(new) < H THEN rpc' = "hdr" /\ UNCHANGED <<rstate, rres>>
                  ELSE IF IsHdr(new[1], 1) /\ IsHdr(new[2], 2) /\ new[1][3] = new[2][3]
                       THEN rpc' = "meta" /\ UNCHANGED <<rstate, rres>>
                       ELSE rpc' = "hdr" /\ RFinish(ErrO)
       [] rpc = "meta" ->                     \* seek + read counted as one step each would only add states
            LET t == rgot[1][3] IN
            /\ rreads' = rreads \cup {s + t.meta}
            /\ UNCHANGED rgot
            /\ IF Cell(img, s + t.meta) = C("meta") THEN rpc' = "root" /\ UNCHANGED <<rstate, rres>>
               ELSE rpc' = "meta" /\ RFinish(ErrO)
       [] rpc = "root" ->
            LET t == rgot[1][3]  c == Cell(img, s + t.root) IN
            /\ rreads' = rreads \cup {s + t.root}
            /\ UNCHANGED rgot
            /\ IF t.leaflen = 0
               THEN rpc' = "root" /\ RFinish(IF c = C("root") THEN [dirs |-> "root", data |-> s + t.data] ELSE ErrO)
               ELSE IF c = C("ptrs") THEN rpc' = "leaf" /\ UNCHANGED <<rstate, rres>>
               ELSE rpc' = "root" /\ RFinish(ErrO)
       [] rpc = "leaf" ->
            LET t == rgot[1][3] IN
            /\ rreads' = rreads \cup {s + t.leaf}
            /\ UNCHANGED <<rgot, rpc>>
            /\ RFinish(IF Cell(img, s + t.leaf) = C("leaf") THEN [dirs |-> "ptrs+leaf", data |-> s + t.data] ELSE ErrO)
  /\ UNCHANGED <<rfail, rshort>> /\ UNCHANGED wvars

Next == Step \/ Crash \/ RStart \/ RStep
Spec == Init /\ [][Next]_vars

(* ---- what a complete, undisturbed run produces ------------------------------------ *)
RECURSIVE RunAll(_, _, _, _)
RunAll(ops, i, image, p) ==
  IF i > Len(ops) THEN [img |-> image, pos |-> p]
  ELSE LET op == ops[i] IN
       IF op.k = "seek" THEN RunAll(ops, i + 1, image, op.to)
       ELSE IF op.k = "write"
            THEN LET n == Len(op.cells)
                     im[j \in 0..n] == IF j = 0 THEN image ELSE Put(im[j - 1], p + j - 1, op.cells[j])
                 IN RunAll(ops, i + 1, im[n], p + n)
            ELSE RunAll(ops, i + 1, image, p)
Final == RunAll(Ops, 1, IF s = 0 THEN << >> ELSE Prefill(s), s)

(* ---- properties ------------------------------------------------------------------------ *)
\* C18: bytes before the start position are never touched
PrefixUntouched == \A i \in 1..s : i <= Len(img) /\ img[i] = C("x")
\* C18: on completion the archive sits at s with offsets relative to s, and the stream is at its end
Placement == wstate = "done" =>
               /\ Open(img, s) = [dirs |-> IF spill THEN "ptrs+leaf" ELSE "root", data |-> s + Table(spill).data]
               /\ pos = s + EndOf(spill)
\* C17: whatever opens after a crash is the complete archive
TornRejected == wstate = "crashed" => (Open(img, s) # ErrO => img = Final.img)
\* C17 mechanism: no header cell before the last write
HeaderLast == (wstate = "run" /\ pc < Len(Ops) - 1) => ~IsHdr(Cell(img, s), 1)
\* C15: a failing stream never yields success
FaultSurfaces == (failFrom >= 0 /\ failFrom < opcount) => wstate # "done"
\* C13: the result does not depend on how transfers were split
ScheduleIndependent == wstate = "done" => img = Final.img /\ pos = Final.pos
\* C20: opening touches header, metadata and directory cells only
LazyOpen == wstate = "done" =>
              \A c \in OpenReads(img, s) : Cell(img, c)[1] \notin {"data", "x", "z", "eof"}

\* the reader program computes exactly the functional reader, for every read schedule
ReaderAgrees == (rstate \in {"ok", "err"} /\ ~(rfail >= 0 /\ rfail < rops)) => rres = Open(img, s)
\* C15 (reading side): a failing stream never yields an opened archive
ReaderFaultSurfaces == (rfail >= 0 /\ rfail < rops) => rstate # "ok"
\* C20: every cell the reader touches is a header, metadata or directory cell named by the header it read
ReadsInsideSections ==
  rstate = "ok" => \A c \in rreads : c \in {s, s + 1} \/ Cell(img, c)[1] \in {"meta", "root", "ptrs", "leaf"}
\* C17 (reading side): a torn image never opens unless it is the final one
TornNeverOpens == (wstate = "crashed" /\ rstate = "ok") => img = Final.img

Safety == PrefixUntouched /\ Placement /\ TornRejected /\ HeaderLast /\ FaultSurfaces /\ ScheduleIndependent /\ LazyOpen
          /\ ReaderAgrees /\ ReaderFaultSurfaces /\ ReadsInsideSections /\ TornNeverOpens
\* the same without the start-position clauses (used to show the deviation violates exactly those)
SafetyNoPlacement == TornRejected /\ FaultSurfaces /\ ScheduleIndependent
=============================================================================
