------------------------------- MODULE DirTree -------------------------------
(***************************************************************************)
(* Directory trees: range-filtered reading (C11) and the leaf-spill        *)
(* writer (C06).                                                           *)
(*                                                                         *)
(* A tree is a root entry list plus a sequence of leaves                   *)
(* [off, len, entries]; a pointer entry (run = 0) names its leaf by        *)
(* (off, len).  Resolution is Archive!ResolveDir.                          *)
(***************************************************************************)
EXTENDS Integers, Sequences, FiniteSets
LOCAL INSTANCE SequencesExt
U == INSTANCE U64
D == INSTANCE Directory
A == INSTANCE Archive

N(n) == U!FromNat(n)

(* ---- ranges: any combination of inclusive / exclusive / open bounds -------- *)
\* a bound is [k |-> "inc" | "exc" | "unb", v |-> U64]
LoOK(lo, id) == CASE lo.k = "unb" -> TRUE [] lo.k = "inc" -> U!Le(lo.v, id) [] OTHER -> U!Lt(lo.v, id)
HiOK(hi, id) == CASE hi.k = "unb" -> TRUE [] hi.k = "inc" -> U!Le(id, hi.v) [] OTHER -> U!Lt(id, hi.v)
InRange(lo, hi, id) == LoOK(lo, id) /\ HiOK(hi, id)

\* expansion of tile entries into <<id, off, len>> triples (runs must be small)
ExpandOL(T) ==
  UNION { { <<U!Plus(T[i].id, N(k)), T[i].off, T[i].len>> : k \in 0..(U!ToNat(T[i].run) - 1) } : i \in 1..Len(T) }

RestrictTo(S, lo, hi) == {p \in S : InRange(lo, hi, p[1])}

(***************************************************************************)
(* The filtered reader as the library does it: a leaf whose first ID lies  *)
(* beyond the (inclusive) end of the range is skipped without being read;  *)
(* every other entry is expanded and filtered per ID.                      *)
(* "beyond the end" for an exclusive end of 0 means: everything.           *)
(***************************************************************************)
Beyond(hi, id) == CASE hi.k = "unb" -> FALSE [] hi.k = "inc" -> U!Lt(hi.v, id) [] OTHER -> U!Le(hi.v, id)

RECURSIVE ReadFiltered(_, _, _, _, _)
ReadFiltered(E, leaves, lo, hi, depth) ==
  IF depth > A!MaxDepth THEN {}
  ELSE UNION { IF D!IsLeafPtr(E[i])
               THEN IF Beyond(hi, E[i].id) THEN {}
                    ELSE LET ks == A!LeafFor(leaves, E[i]) IN
                         IF ks = {} THEN {}
                         ELSE ReadFiltered(leaves[CHOOSE k \in ks : TRUE].entries, leaves, lo, hi, depth + 1)
               ELSE RestrictTo(ExpandOL(<<E[i]>>), lo, hi)
             : i \in 1..Len(E) }

\* what the full reader yields (tiles only; pointers too deep or dangling contribute nothing)
ResolveSet(E, leaves) ==
  LET R == A!ResolveDir(E, leaves, 1) IN ExpandOL(SelectSeq(R, LAMBDA x : ~A!IsBad(x)))

\* every pointer's ID is a lower bound of the IDs below it (v3: "the first tile ID of the leaf")
RECURSIVE MinIdOK(_, _, _)
MinIdOK(E, leaves, depth) ==
  depth > A!MaxDepth \/
  \A i \in 1..Len(E) :
     D!IsLeafPtr(E[i]) =>
        LET ks == A!LeafFor(leaves, E[i]) IN
          ks = {} \/ LET L == leaves[CHOOSE k \in ks : TRUE].entries IN
                       /\ \A j \in 1..Len(L) : U!Le(E[i].id, L[j].id)
                       /\ MinIdOK(L, leaves, depth + 1)

(***************************************************************************)
(* The leaf-spill writer.  CLen(codec, bytes) is the length of the          *)
(* compressed form: identity for "none", an abstract shrinking codec "half". *)
(* Result: [root |-> entries, leaves |-> sequence of [off, len, entries]], *)
(* or [stuck |-> TRUE] if even a single leaf does not produce a fitting    *)
(* root (cannot happen when MaxRoot holds a one-pointer directory).        *)
(***************************************************************************)
CLen(codec, b) == IF codec = "none" THEN Len(b) ELSE (Len(b) + 1) \div 2 + 2

Chunk(E, sz, k) == SubSeq(E, (k - 1) * sz + 1, IF k * sz > Len(E) THEN Len(E) ELSE k * sz)
NumChunks(E, sz) == (Len(E) + sz - 1) \div sz

RECURSIVE SpillLoop(_, _, _, _)
SpillLoop(E, codec, sz, MaxRoot) ==
  LET nc == NumChunks(E, sz)
      lens == [k \in 1..nc |-> CLen(codec, D!EncDir(Chunk(E, sz, k)))]
      offs[k \in 1..nc] == IF k = 1 THEN 0 ELSE offs[k - 1] + lens[k - 1]
      leaves == [k \in 1..nc |-> [off |-> N(offs[k]), len |-> N(lens[k]), entries |-> Chunk(E, sz, k)]]
      root == [k \in 1..nc |-> D!Entry(Chunk(E, sz, k)[1].id, U!Zero, N(lens[k]), N(offs[k]))]
  IN IF CLen(codec, D!EncDir(root)) <= MaxRoot THEN [root |-> root, leaves |-> leaves, size |-> sz]
     ELSE IF sz >= Len(E) THEN [stuck |-> TRUE]
     ELSE SpillLoop(E, codec, 2 * sz, MaxRoot)

Fits(E, codec, MaxRoot) == CLen(codec, D!EncDir(E)) <= MaxRoot
Spill(E, codec, start, MaxRoot) ==
  IF Fits(E, codec, MaxRoot) THEN [root |-> E, leaves |-> <<>>, size |-> 0]
  ELSE SpillLoop(E, codec, start, MaxRoot)

\* C06 post-conditions of a written (root, leaves) pair for input E
SpillPost(E, R, codec, MaxRoot) ==
  /\ CLen(codec, D!EncDir(R.root)) <= MaxRoot
  /\ IF Fits(E, codec, MaxRoot)
     THEN R.root = E /\ R.leaves = <<>>                              \* single root, empty leaf section
     ELSE /\ \A i \in 1..Len(R.root) : D!IsLeafPtr(R.root[i])        \* only leaf pointers
          /\ Len(R.root) = Len(R.leaves)
          /\ \A k \in 1..Len(R.leaves) :
                /\ Len(R.leaves[k].entries) > 0
                /\ R.root[k].id  = R.leaves[k].entries[1].id         \* first tile ID of its leaf
                /\ R.root[k].off = R.leaves[k].off                   \* offset inside the leaf section
                /\ R.root[k].len = R.leaves[k].len                   \* exact byte length
                /\ R.leaves[k].len = N(CLen(codec, D!EncDir(R.leaves[k].entries)))
          /\ FlattenSeq([k \in 1..Len(R.leaves) |-> R.leaves[k].entries]) = E   \* same entries, same order
  /\ A!ResolveDir(R.root, R.leaves, 1) = E
=============================================================================
