SPECIFICATION Spec
CONSTANT MaxN = 13
INVARIANT Sound
INVARIANT Gen
CHECK_DEADLOCK FALSE
