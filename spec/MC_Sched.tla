------------------------------- MODULE MC_Sched -------------------------------
(***************************************************************************)
(* Generator of transfer schedules (C13): every composition of n for       *)
(* n <= MaxN, i.e. every way a stream may split an n-byte transfer into    *)
(* short transfers of sizes >= 1.  States are partial compositions; a      *)
(* complete one (sum = its target) is printed.  Count = 2^(n-1) per n.     *)
(***************************************************************************)
EXTENDS Integers, Sequences, TLC, Json
CONSTANT MaxN
VARIABLES parts, left
Init == \E n \in 1..MaxN : parts = <<>> /\ left = n
Next == left > 0 /\ \E k \in 1..left : parts' = Append(parts, k) /\ left' = left - k
Spec == Init /\ [][Next]_<<parts, left>>
RECURSIVE Sum(_)
Sum(s) == IF s = <<>> THEN 0 ELSE Head(s) + Sum(Tail(s))
Sound == \A i \in 1..Len(parts) : parts[i] >= 1
Gen == left = 0 => PrintT(<<"STIM", ToJson([parts |-> parts, n |-> Sum(parts)])>>)
=============================================================================
