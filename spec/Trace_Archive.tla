---------------------------- MODULE Trace_Archive ----------------------------
(***************************************************************************)
(* Trace validation of the archive builder and of whole files.             *)
(*                                                                         *)
(* The trace is the sequence of public calls a driver made on one PMTiles  *)
(* value (and the values derived from it by save / open), logged at each   *)
(* call's return with arguments, result and cheap projected state.  Each   *)
(* event is matched with the TileStore action of the same name; the model  *)
(* state always follows the SPECIFICATION (abs is updated from the logged   *)
(* arguments only), the logged observations are compared with it, and a    *)
(* step whose observation is not allowed is the named deviation (FAIL      *)
(* line with a clause tag, counted) -- validation continues.               *)
(* Clause tags are prefixed with the property they belong to.              *)
(***************************************************************************)
EXTENDS Integers, Sequences, FiniteSets, TLC, Json, IOUtils
LOCAL INSTANCE FiniteSetsExt
LOCAL INSTANCE SequencesExt
U  == INSTANCE U64
D  == INSTANCE Directory
Hd == INSTANCE Header
H  == INSTANCE Hilbert
A  == INSTANCE Archive
DT == INSTANCE DirTree

Rec == ndJsonDeserialize(IOEnv.TRACE)

Empty == 0                          \* the token of the empty content
Hash(c) == c                        \* content tokens are assigned by byte equality: the hash is injective on them
VARIABLES l, nfail,
          abs, tileById, dataByHash, idsByHash, reply,     \* TileStore
          cfg,                                             \* settings + metadata token the user set
          lens,                                            \* token -> content length
          saved,                                           \* set of <<abs, cfg key, api, file token>> of earlier saves
          cur                                              \* the file of the last File event: [F, full, ol]
INSTANCE TileStore
sv == <<abs, tileById, dataByHash, idsByHash>>     \* local copy: UNCHANGED of an instantiated definition is not assignable in TLC
tvars == <<l, nfail, abs, tileById, dataByHash, idsByHash, reply, cfg, lens, saved, cur>>

Has(r, f) == f \in DOMAIN r
N(n) == U!FromNat(n)

NoFile == [F |-> [none |-> TRUE], full |-> {}, ol |-> {}]
DefaultCfg == [ic |-> 2, tc |-> 0, tt |-> 0, minz |-> 0, maxz |-> 0, cz |-> 0,
               coords |-> [k \in 1..6 |-> [fl |-> 0, cmp |-> -1]], meta |-> 0]

(* ---- observations of the hook (feature verif): sizes of the builder's maps ---------- *)
\* evaluated on the state AFTER the call (primed variables written out: the event itself is a constant)
MemContentsP == {x[3] : x \in {y \in tileById' : y[2] = "mem"}}
MemBytesP == FoldSet(LAMBDA h, acc : acc + lens'[dataByHash'[h]], 0, DOMAIN dataByHash')
CountsTagsP(e) ==
  IF ~Has(e, "counts") THEN {}
  ELSE (IF e.counts[1] # Cardinality(abs') THEN {"C04:num_ids_differs_from_map"} ELSE {})
       \cup (IF e.counts[2] # Cardinality(MemContentsP) \/ e.counts[6] # MemBytesP
             THEN {"C10:retained_contents_not_exactly_the_referenced_ones"} ELSE {})
       \cup (IF e.counts[4] + e.counts[5] # Cardinality(abs') THEN {"C04:mem_plus_backed_differs"} ELSE {})

(* ---- file-level judges (shared by Save / Open) ----------------------------------------- *)
HdrOf(F) == Hd!DecHeader(F.hdr).h

\* C01: settings stored in the header equal what was set; coordinates nearest E7
SettingsTags(F) ==
  LET h == HdrOf(F)  co == <<h.min_lon, h.min_lat, h.max_lon, h.max_lat, h.c_lon, h.c_lat>> IN
  (IF h.icomp # cfg.ic \/ h.tcomp # cfg.tc \/ h.ttype # cfg.tt \/ h.minz # cfg.minz \/ h.maxz # cfg.maxz
      \/ h.cz # cfg.cz THEN {"C01:header_settings_differ"} ELSE {})
  \cup (IF \E k \in 1..6 : ~Hd!NearestOK(cfg.coords[k].fl, cfg.coords[k].cmp, co[k])
        THEN {"C01:coordinate_not_nearest_e7"} ELSE {})
  \cup (IF F.meta.tok # cfg.meta THEN {"C01:metadata_differs"} ELSE {})

LayoutTags(F) ==
  LET T == F.tiles  h == HdrOf(F) IN
  (IF A!Addressed(T) # abs THEN {"C01:addressed_tiles_differ_from_added_tiles"} ELSE {})
  \cup (IF ~A!DedupExact(T) \/ ~A!DataExact(T, h) THEN {"C10:content_not_stored_exactly_once"} ELSE {})
  \cup (IF ~A!RunsMaximal(T) THEN {"C10:adjacent_entries_mergeable"} ELSE {})
  \cup (IF ~(A!Addressed(T) \subseteq abs) THEN {"C10:run_or_entry_covers_a_tile_that_was_not_added_with_that_content"} ELSE {})
  \cup (IF h.clustered = 0 THEN {"INFO:not_flagged_clustered"} ELSE {})

\* settings as they are stored: coordinates replaced by the E7 value they round to (ties stay apart)
CfgKey(c) == [c EXCEPT !.coords = [k \in 1..6 |->
                 IF c.coords[k].cmp < 0 THEN <<c.coords[k].fl, 0>>
                 ELSE IF c.coords[k].cmp > 0 THEN <<c.coords[k].fl + 1, 0>>
                 ELSE <<c.coords[k].fl, 1>>]]

SaveTags(e) ==
  IF cfg.ic = 0
  THEN (IF e.res = "err" THEN {} ELSE {"C19:unknown_internal_compression_not_refused_on_write"})
  ELSE IF e.res # "ok" THEN {"C01:write_failed"}
  ELSE IF Has(e, "light") THEN {}            \* very large archive: judged through its re-opening only
  ELSE IF Has(e.file, "undissectable") THEN {"C02:written_file_unreadable"}
  ELSE LET wf == A!WellFormed(e.file) IN
       (IF wf # "ok" THEN {"C02:" \o wf} ELSE {})
       \* the clauses of other properties are judged as soon as the directory hints are verified
       \cup (IF wf \in {"ok", "header_counters_wrong", "clustered_flag_but_not_in_id_order", "metadata_not_json_object",
                        "tile_range_outside_data_section"}
             THEN SettingsTags(e.file) \cup LayoutTags(e.file) ELSE {})
       \* C16 is a statement about bytes only: judged whether or not the file is well-formed
       \cup (IF \E p \in saved : p[1] = abs /\ p[2] = CfgKey(cfg) /\ p[3] = e.api /\ p[4] # e.ftok
             THEN {"C16:same_logical_archive_different_bytes"} ELSE {})

\* observed settings after an open (C01 / C03): equal to what the file stores
ObservedTags(e, F, pre) ==
  LET h == HdrOf(F) IN
  IF ~Has(e, "obs") THEN {}
  ELSE LET o == e.obs IN
    (IF o.ic # h.icomp \/ o.tc # h.tcomp \/ o.tt # h.ttype \/ o.minz # h.minz \/ o.maxz # h.maxz \/ o.cz # h.cz
        \/ ~o.coords_e7 \/ o.coords # <<h.min_lon, h.min_lat, h.max_lon, h.max_lat, h.c_lon, h.c_lat>>
     THEN {pre \o ":opened_settings_differ_from_header"} ELSE {})
    \cup (IF o.meta # (IF F.meta.kind = "empty" THEN 1 ELSE F.meta.tok)      \* token 1 is "{}" by convention of the harness
          THEN {pre \o ":opened_metadata_differs"} ELSE {})

(* ---- one disjunct per event kind ---------------------------------------------------------- *)
IsEvent(k) == l <= Len(Rec) /\ Rec[l].ev = k
Emit(tags) == /\ \A t \in tags : PrintT(<<"FAIL", l, Rec[l].ev, t>>)
              /\ nfail' = nfail + Cardinality(tags)
              /\ l' = l + 1
Keep == UNCHANGED <<cfg, lens, saved, cur>>

TrNew ==
  /\ IsEvent("New")
  /\ abs' = {} /\ tileById' = {} /\ dataByHash' = <<>> /\ idsByHash' = {} /\ reply' = Ok
  /\ cfg' = [DefaultCfg EXCEPT !.tt = Rec[l].tt, !.tc = Rec[l].tc]
  /\ UNCHANGED <<lens, saved, cur>>
  /\ Emit({})

TrSet ==
  /\ IsEvent("Set")
  /\ cfg' = Rec[l].cfg
  /\ UNCHANGED <<sv, reply, lens, saved, cur>>
  /\ Emit({})

TrAdd ==
  /\ IsEvent("Add")
  /\ LET e == Rec[l] IN
       IF e.len = 0
       THEN /\ AddEmpty(e.id) /\ UNCHANGED lens
            /\ LET hit == {p \in abs : p[1] = e.id}
                   unchanged == /\ CountsTagsP(e) = {}
                                /\ (Has(e, "after_n") => /\ e.after_n = Cardinality(abs)
                                                         /\ IF hit = {} THEN e.after_res = "none"
                                                            ELSE e.after_res = "some" /\ <<e.id, e.after_tok>> \in abs)
               IN Emit((IF e.res = "err" THEN {} ELSE {"C19:empty_content_not_refused"})
                       \cup (IF unchanged THEN {} ELSE {"C19:refused_add_changed_the_archive"}))
       ELSE /\ AddTile(e.id, e.tok) /\ lens' = (e.tok :> e.len) @@ lens
            /\ Emit((IF e.res = "ok" THEN {} ELSE {"C04:add_failed"}) \cup CountsTagsP(e))
  /\ UNCHANGED <<cfg, saved, cur>>

TrRemove ==
  /\ IsEvent("Remove")
  /\ RemoveTile(Rec[l].id)
  /\ UNCHANGED <<cfg, lens, saved, cur>> /\ Emit(CountsTagsP(Rec[l]))

TrGet ==
  /\ IsEvent("Get")
  /\ LET e == Rec[l] IN
       /\ GetTile(e.id)
       /\ Emit(IF reply'.kind = "some"
               THEN (IF e.res = "some" /\ e.tok = reply'.c THEN {} ELSE {"C04:lookup_differs_from_map"})
               ELSE (IF e.res = "none" THEN {} ELSE {"C04:lookup_differs_from_map"}))
  /\ Keep

TrGetZxy ==
  /\ IsEvent("GetZxy")
  /\ LET e == Rec[l] IN
       /\ GetTile(H!ZxyToIdU(e.z, e.x, e.y))
       /\ Emit(IF reply'.kind = "some"
               THEN (IF e.res = "some" /\ e.tok = reply'.c THEN {} ELSE {"C04:zxy_lookup_differs_from_map"})
               ELSE (IF e.res = "none" THEN {} ELSE {"C04:zxy_lookup_differs_from_map"}))
  /\ Keep

TrList ==
  /\ IsEvent("List")
  /\ List
  /\ Emit(IF {Rec[l].ids[k] : k \in 1..Len(Rec[l].ids)} = reply'.ids /\ Len(Rec[l].ids) = Cardinality(reply'.ids)
          THEN {} ELSE {"C04:listing_differs_from_map"})
  /\ Keep

TrCount ==
  /\ IsEvent("Count")
  /\ Count
  /\ Emit(IF Rec[l].n = reply'.n THEN {} ELSE {"C04:count_differs_from_map"})
  /\ Keep

\* bulk load: many adds in one event (large archives); tiles: [[id, tok, len], ...]
TrBulk ==
  /\ IsEvent("Bulk")
  /\ LET ts == Rec[l].tiles
         m  == {<<ts[k].id, ts[k].tok>> : k \in 1..Len(ts)} IN
       /\ abs' = m
       /\ tileById' = {<<p[1], "mem", p[2]>> : p \in m}
       /\ dataByHash' = [c \in {p[2] : p \in m} |-> c]
       /\ idsByHash' = {<<p[2], p[1]>> : p \in m}
       /\ lens' = [c \in {ts[k].tok : k \in 1..Len(ts)} |-> 0] @@ lens    \* lengths unused for bulk
       /\ reply' = Ok
       /\ Emit(IF Cardinality(m) = Len(ts) /\ Rec[l].res = "ok" THEN {} ELSE {"STIMULUS_bulk_ids_not_distinct"})
  /\ UNCHANGED <<cfg, saved, cur>>

\* to_writer consumes the value; the bytes are dissected into e.file
TrSave ==
  /\ IsEvent("Save")
  /\ LET e == Rec[l] IN
       /\ saved' = IF e.res = "ok" /\ cfg.ic # 0 THEN saved \cup {<<abs, CfgKey(cfg), e.api, e.ftok>>} ELSE saved
       /\ Emit(SaveTags(e))
  /\ UNCHANGED <<sv, reply, cfg, lens, cur>>

\* open the bytes of the last successful save: every tile reader-backed, map unchanged
TrReopen ==
  /\ IsEvent("Reopen")
  /\ OpenedFrom(abs)
  /\ Emit(IF Rec[l].res = "ok" THEN {} ELSE {"C01:written_archive_does_not_open"})
  /\ Keep

\* observed public fields of the value (after an open)
TrObserve ==
  /\ IsEvent("Observe")
  /\ LET e == Rec[l]  o == e.obs IN
       Emit((IF o.ic # cfg.ic \/ o.tc # cfg.tc \/ o.tt # cfg.tt \/ o.minz # cfg.minz \/ o.maxz # cfg.maxz \/ o.cz # cfg.cz
             THEN {"C01:settings_not_preserved"} ELSE {})
            \cup (IF ~o.coords_e7 \/ \E k \in 1..6 : ~Hd!NearestOK(cfg.coords[k].fl, cfg.coords[k].cmp, o.coords[k])
                  THEN {"C01:coordinate_not_nearest_e7"} ELSE {})
            \cup (IF o.meta # cfg.meta THEN {"C01:metadata_not_preserved"} ELSE {}))
  /\ UNCHANGED <<sv, reply, cfg, lens, saved, cur>>

\* new trace segment: forget the store, keep the save history (C16 compares across segments)
TrReset ==
  /\ IsEvent("Reset")
  /\ abs' = {} /\ tileById' = {} /\ dataByHash' = <<>> /\ idsByHash' = {} /\ reply' = Ok
  /\ cfg' = DefaultCfg
  /\ UNCHANGED <<lens, saved, cur>>
  /\ Emit({})


(* ---- whole files from any writer (C03, C11, C19, C06) ------------------------------------ *)
\* foreign files may have an empty metadata section
WellFormedForeign(F) == A!WellFormed([F EXCEPT !.meta.kind = IF @ = "empty" THEN "object" ELSE @])
AllUnch == UNCHANGED <<sv, reply, cfg, lens, saved>>
SetOfTiles(ts) == {<<ts[k].id, ts[k].tok>> : k \in 1..Len(ts)}

\* File: a file image becomes the current file; it must be spec-valid (else the driver is at fault)
TrFile ==
  /\ IsEvent("File")
  /\ LET e == Rec[l]  F == e.file  wf == IF Has(e.file, "undissectable") THEN "undissectable" ELSE WellFormedForeign(F) IN
       /\ cur' = IF wf # "ok" THEN NoFile ELSE [F |-> F, full |-> A!Addressed(F.tiles), ol |-> DT!ExpandOL(F.tiles)]
       /\ Emit(IF wf # "ok" THEN {"STIMULUS_file_not_wellformed_" \o wf}
               ELSE IF Has(e, "exp_tiles") /\ e.exp_tiles # [k \in 1..Len(F.tiles) |-> A!StripTok(F.tiles[k])]
                    THEN {"STIMULUS_assembled_file_differs_from_generated_layout"} ELSE {})
  /\ AllUnch

\* full open through the library: exactly the addressed IDs, each with the bytes at its offset
TrOpened ==
  /\ IsEvent("Opened")
  /\ LET e == Rec[l] IN
       Emit(IF e.res # "ok" THEN {"C03:valid_archive_does_not_open"}
            ELSE (IF SetOfTiles(e.tiles) # cur.full \/ Len(e.tiles) # Cardinality(cur.full)
                  THEN {"C03:opened_tiles_differ_from_addressed_content"} ELSE {})
                 \cup ObservedTags(e, cur.F, "C03"))
  /\ AllUnch /\ UNCHANGED cur

\* range-filtered open: the full opening restricted to the range
TrPartial ==
  /\ IsEvent("Partial")
  /\ LET e == Rec[l]
         want == {p \in cur.full : DT!InRange(e.lo, e.hi, p[1])} IN
       Emit(IF e.res # "ok" THEN {"C11:partial_open_failed_although_full_open_succeeds"}
            ELSE IF SetOfTiles(e.tiles) # want \/ Len(e.tiles) # Cardinality(want)
                 THEN {"C11:partial_open_differs_from_restricted_full_open"} ELSE {})
  /\ AllUnch /\ UNCHANGED cur

\* util::read_directories on the current file, with a range
TrReadDirs ==
  /\ IsEvent("ReadDirs")
  /\ LET e == Rec[l]
         want == {p \in cur.ol : DT!InRange(e.lo, e.hi, p[1])}
         got  == {<<e.map[k].id, e.map[k].off, e.map[k].len>> : k \in 1..Len(e.map)}
         pre  == IF e.lo.k = "unb" /\ e.hi.k = "unb" THEN "C03" ELSE "C11" IN
       Emit(IF e.res # "ok" THEN {pre \o ":read_directories_failed"}
            ELSE IF got # want \/ Len(e.map) # Cardinality(want) THEN {pre \o ":read_directories_map_differs"} ELSE {})
  /\ AllUnch /\ UNCHANGED cur

\* Directory::find_entry_for_tile_id on one directory: index of the covering entry (0 = none)
TrFind ==
  /\ IsEvent("Find")
  /\ LET e == Rec[l] IN
       Emit(IF \E k \in 1..Len(e.cases) : e.cases[k].res # D!FindEntry(e.dir, e.cases[k].id)
            THEN {"C03:find_entry_wrong"} ELSE {})
  /\ AllUnch /\ UNCHANGED cur

\* documented rejections on open: non-object metadata, unknown internal compression
TrOpenReject ==
  /\ IsEvent("OpenReject")
  /\ LET e == Rec[l]  d == Hd!DecHeader(e.hdr) IN
       Emit(IF d.kind # "ok" THEN {"STIMULUS_reject_case_header_invalid"}
            ELSE IF d.h.icomp = 0
                 THEN (IF \A k \in 1..Len(e.obs) : e.obs[k].res = "err" THEN {} ELSE {"C19:unknown_internal_compression_not_refused_on_open"})
            ELSE IF e.meta_kind \in {"array", "string", "number", "bool", "null"}
                 THEN (IF \A k \in 1..Len(e.obs) : e.obs[k].res = "err" THEN {} ELSE {"C19:non_object_metadata_not_refused"})
            ELSE {"STIMULUS_not_a_reject_case"})
  /\ AllUnch /\ UNCHANGED cur

\* util::write_directories: e.entries in, root bytes + leaf section out (C06)
WriteDirsTags(e) ==
  LET E == e.entries
      fits == e.first_len <= 16257
      rootE == e.root.entries
  IN
  IF e.res # "ok" THEN {"C06:write_directories_failed"}
  ELSE IF e.comp = 1 /\ e.first_len # Len(D!EncDir(E)) THEN {"C06:first_attempt_is_not_the_single_root_encoding"}
  ELSE IF ~D!ParsesTo(e.root.raw, rootE) \/ \E k \in 1..Len(e.leaves) : ~D!ParsesTo(e.leaves[k].raw, e.leaves[k].entries)
       THEN {"C06:written_directory_not_decodable"}
  ELSE IF e.root_clen > 16257 THEN {"C06:root_directory_over_budget"}
  ELSE IF e.pos_after # e.pos_start + e.root_clen THEN {"C06:stream_not_positioned_after_root"}
  ELSE IF fits
       THEN (IF rootE = E /\ Len(e.leaves) = 0 /\ e.leaf_total = 0 /\ e.root_clen = e.first_len
             THEN {} ELSE {"C06:fitting_list_not_written_as_single_root_with_empty_leaf_section"})
  ELSE (IF \E i \in 1..Len(rootE) : ~D!IsLeafPtr(rootE[i]) THEN {"C06:spilled_root_contains_tile_entries"} ELSE {})
       \cup (IF Len(rootE) # Len(e.leaves) \/ \E k \in 1..Len(e.leaves) :
                    \/ Len(e.leaves[k].entries) = 0
                    \/ rootE[k].id # e.leaves[k].entries[1].id
                    \/ rootE[k].off # e.leaves[k].off \/ rootE[k].len # e.leaves[k].len
                    \/ ~e.leaves[k].exact
                    \/ ~A!Inside(e.leaves[k].off, e.leaves[k].len, N(e.leaf_total))
              THEN {"C06:pointer_fields_wrong"} ELSE {})
       \* pointer k names leaf k (checked above), so the resolution is the concatenation of the leaves in root order
       \cup (IF Len(rootE) # Len(e.leaves) \/ FlattenSeq([k \in 1..Len(e.leaves) |-> e.leaves[k].entries]) # E
             THEN {"C06:resolution_differs_from_input_entries"} ELSE {})
TrWriteDirs ==
  /\ IsEvent("WriteDirs")
  /\ Emit(WriteDirsTags(Rec[l]))
  /\ AllUnch /\ UNCHANGED cur

(* ---- stream-level observations on whole archives (C18, C20) ---------------------------------- *)
Unreadable(F) == Has(F, "undissectable")

\* to_writer started at stream position p: e.file is the dissection of the stream contents from p on
SaveAtTags(e) ==
  IF e.res # "ok" THEN {"C18:write_failed"}
  ELSE (IF ~e.prefix_intact \/ U!Lt(e.min_write_pos, e.p) THEN {"C18:bytes_before_start_position_overwritten"} ELSE {})
       \cup (IF ~Has(e, "file") \/ Unreadable(e.file) THEN {"C18:no_readable_archive_at_start_position"}
             ELSE LET wf == A!WellFormed(e.file)  h == HdrOf(e.file) IN
                  IF wf # "ok" THEN {"C18:archive_at_start_position_invalid_" \o wf}
                  ELSE (IF A!Addressed(e.file.tiles) # SetOfTiles(e.tiles) THEN {"C18:archive_at_start_position_differs_from_written_one"} ELSE {})
                       \cup (IF e.final_pos # U!Plus(e.p, U!Plus(h.data_off, h.data_len)) THEN {"C18:stream_not_left_at_archive_end"} ELSE {}))
TrSaveAt ==
  /\ IsEvent("SaveAt")
  /\ Emit(SaveAtTags(Rec[l]))
  /\ AllUnch /\ UNCHANGED cur

\* byte ranges read during an open: [pos (limbs), length]
InSec(pos, n, off, slen) == U!Le(off, pos) /\ U!Le(U!Plus(pos, N(n)), U!Plus(off, slen))
OpenReadsTags(e) ==
  LET h == HdrOf(cur.F) IN
  IF e.res # "ok" THEN {"C20:open_failed"}
  ELSE IF \E k \in 1..Len(e.reads) :
            LET pos == e.reads[k][1]  n == e.reads[k][2] IN
            ~( InSec(pos, n, U!Zero, N(127)) \/ InSec(pos, n, h.meta_off, h.meta_len)
               \/ InSec(pos, n, h.root_off, h.root_len) \/ InSec(pos, n, h.leaf_off, h.leaf_len) )
       THEN {"C20:open_reads_outside_header_metadata_and_directory_sections"} ELSE {}
TrOpenReads ==
  /\ IsEvent("OpenReads")
  /\ Emit(OpenReadsTags(Rec[l]))
  /\ AllUnch /\ UNCHANGED cur

\* reads of one tile lookup: exactly the tile's byte range, nothing for an absent tile
CoverOK(reads, start, n) ==
  LET S == SortSeq(reads, LAMBDA a, b : U!Lt(a[1], b[1]))
      end == U!Plus(start, N(n))
      r == FoldLeft(LAMBDA acc, x : IF acc.ok /\ U!Le(x[1], acc.cov) /\ U!Le(start, x[1]) /\ U!Le(U!Plus(x[1], N(x[2])), end)
                                    THEN [ok |-> TRUE, cov |-> U!MaxU(acc.cov, U!Plus(x[1], N(x[2])))]
                                    ELSE [ok |-> FALSE, cov |-> acc.cov],
                    [ok |-> TRUE, cov |-> start], S)
  IN Len(reads) > 0 /\ r.ok /\ r.cov = end
TileReadOK(e, c) ==
  LET T == cur.F.tiles  h == HdrOf(cur.F)
      hits == {k \in 1..Len(T) : D!Covers(T[k], c.id)}
      visible == ~e.partial \/ U!Le(c.id, e.hi)
  IN IF hits = {} \/ ~visible THEN c.res = "none" /\ Len(c.reads) = 0
     ELSE LET t == T[CHOOSE k \in hits : TRUE] IN
          c.res = "some" /\ U!IsSmall(t.len) /\ CoverOK(c.reads, U!Plus(h.data_off, t.off), U!ToNat(t.len))
TrTileReads ==
  /\ IsEvent("TileReads")
  /\ LET e == Rec[l] IN
       Emit(IF \E k \in 1..Len(e.cases) : ~TileReadOK(e, e.cases[k])
            THEN {"C20:tile_lookup_does_not_read_exactly_the_tile_range"} ELSE {})
  /\ AllUnch /\ UNCHANGED cur

Init == /\ l = 1 /\ nfail = 0 /\ InitStore /\ cfg = DefaultCfg /\ lens = <<>> /\ saved = {} /\ cur = NoFile
Next == TrNew \/ TrSet \/ TrAdd \/ TrRemove \/ TrGet \/ TrGetZxy \/ TrList \/ TrCount \/ TrBulk
        \/ TrSave \/ TrReopen \/ TrObserve \/ TrReset
        \/ TrFile \/ TrOpened \/ TrPartial \/ TrReadDirs \/ TrFind \/ TrOpenReject \/ TrWriteDirs
        \/ TrSaveAt \/ TrOpenReads \/ TrTileReads
Spec == Init /\ [][Next]_tvars

\* the invariants of the base module hold in every state of the trace behaviour
ModelInv == Refines /\ FunctionalAbs /\ Retention
Finished == (l = Len(Rec) + 1) => PrintT(<<"DONE", Len(Rec), nfail>>)
=============================================================================
