------------------------------- MODULE MC_Store -------------------------------
(***************************************************************************)
(* Bounded instance of the builder: a few adjacent tile IDs, colliding      *)
(* contents (equal, equal length, prefix of each other) and the empty       *)
(* content; all histories of add / replace / remove / lookup / list /       *)
(* count / save+reopen (the state space is closed, so depth is unbounded).  *)
(* Checks C04 (Refines, ObsAgree), C10 (Retention; witness writer is exact  *)
(* and minimal), C16 (output is a function of the map), C19 (rejected =     *)
(* stutter), C01 (reading the witness layout back gives the map).           *)
(***************************************************************************)
EXTENDS Integers, Sequences, FiniteSets, TLC
U == INSTANCE U64
A == INSTANCE Archive

CONSTANT NIds                      \* number of adjacent tile IDs
N(n) == U!FromNat(n)
Ids == {N(k) : k \in 0..(NIds - 1)}
Contents == {<<1>>, <<2>>, <<1, 1>>}
Empty == <<>>
CONSTANT Colliding                 \* FALSE: the hash is the identity; TRUE: <<1>> and <<2>> collide (control)
Hash(c) == IF Colliding /\ c = <<2>> THEN <<1>> ELSE c

VARIABLES abs, tileById, dataByHash, idsByHash, reply
INSTANCE TileStore

Init == InitStore
DoAdd      == \E id \in Ids : \E c \in Contents : AddTile(id, c)
DoAddEmpty == \E id \in Ids : AddEmpty(id)
DoRemove   == \E id \in Ids : RemoveTile(id)
DoGet      == \E id \in Ids \cup {N(NIds)} : GetTile(id)
DoList     == List
DoCount    == Count
DoSave     == SaveReopen
Next == DoAdd \/ DoAddEmpty \/ DoRemove \/ DoGet \/ DoList \/ DoCount \/ DoSave
Spec == Init /\ [][Next]_vars

\* what the library's finish() iterates over: the projection of the implementation state
Proj == {<<x[1], ContentOfEntry(x, dataByHash)>> : x \in tileById}

WitnessOK ==
  LET T == A!CanonTiles(abs, Len)
      dataLen == A!ClusterScan(T).hwm
      h == [n_addr |-> N(Cardinality(abs)), n_ent |-> N(Len(T)),
            n_cont |-> N(Cardinality({p[2] : p \in abs})), data_len |-> dataLen]
  IN /\ A!GloballyAscending(T)
     /\ A!Addressed(T) = abs                         \* reading the layout back gives the map (C01)
     /\ A!DedupExact(T) /\ A!DataExact(T, h)         \* each distinct content once (C10)
     /\ A!RunsMaximal(T)                             \* no two neighbours mergeable (C10)
     /\ A!IsClustered(T)                             \* laid out in ID order (C02)
     /\ A!Counters(T, h)
     /\ A!TilesInsideData(T, h)
SaveFunctional == A!CanonTiles(Proj, Len) = A!CanonTiles(abs, Len)     \* C16: history-free

Inv == Refines /\ FunctionalAbs /\ FunctionalT /\ Retention /\ ObsAgree /\ WitnessOK /\ SaveFunctional
=============================================================================
