------------------------------ MODULE TileStore ------------------------------
(***************************************************************************)
(* The archive builder ("tile manager") as a state machine.                 *)
(*                                                                         *)
(* Specification variable                                                   *)
(*   abs         set of <<id, content>> -- the map the user is promised     *)
(* Implementation-shaped variables (what the library keeps)                 *)
(*   tileById    set of <<id, kind, x>>: kind "mem" with x = hash of the    *)
(*               content (held in memory under that hash) or kind "back"    *)
(*               with x = the bytes found at its offset/length in the       *)
(*               reader the archive was opened from                         *)
(*   dataByHash  function hash -> content (a later insert under the same    *)
(*               hash replaces the content)                                 *)
(*   idsByHash   set of <<hash, id>>: the reference sets                    *)
(* The properties hold when Hash is injective on the contents in use (the   *)
(* instances use the identity); MC_Store_collision.cfg runs a colliding     *)
(* hash and shows Refines failing -- the assumption is necessary.           *)
(*   reply       what the last call returned                                *)
(* Contents are opaque values; "" / the empty value is the constant Empty.  *)
(* One action per public call; a refused call is the separate action        *)
(* AddEmpty so that "rejected = stutter on the store" is a checked fact.    *)
(***************************************************************************)
EXTENDS Integers, Sequences, FiniteSets, TLC

CONSTANTS Empty,                    \* the empty content
          Hash(_)                   \* the content hash the builder keys its maps by

VARIABLES abs, tileById, dataByHash, idsByHash, reply
storeVars == <<abs, tileById, dataByHash, idsByHash>>
vars == <<abs, tileById, dataByHash, idsByHash, reply>>

None == [kind |-> "none"]
Some(c) == [kind |-> "some", c |-> c]
Ok == [kind |-> "ok"]
ErrR == [kind |-> "err"]

IdsOf(t) == {x[1] : x \in t}
EntryOf(t, id) == CHOOSE x \in t : x[1] = id

InitStore ==
  /\ abs = {} /\ tileById = {} /\ dataByHash = <<>> /\ idsByHash = {}
  /\ reply = Ok

\* state right after opening an archive whose resolution is the map m (set of <<id, content>>)
OpenedFrom(m) ==
  /\ abs' = m
  /\ tileById' = {<<p[1], "back", p[2]>> : p \in m}
  /\ dataByHash' = <<>> /\ idsByHash' = {}
  /\ reply' = Ok

\* what remove_tile does to the three maps
Unbind(t, d, r, id) ==
  IF id \notin IdsOf(t) THEN [t |-> t, d |-> d, r |-> r]
  ELSE LET x == EntryOf(t, id) IN
       IF x[2] = "back" THEN [t |-> t \ {x}, d |-> d, r |-> r]
       ELSE LET r2 == r \ {<<x[3], id>>}
                still == \E q \in r2 : q[1] = x[3]
            IN [t |-> t \ {x}, d |-> IF still THEN d ELSE [k \in DOMAIN d \ {x[3]} |-> d[k]], r |-> r2]

AddTile(id, c) ==
  /\ c # Empty
  /\ LET u == Unbind(tileById, dataByHash, idsByHash, id)  h == Hash(c) IN
       /\ tileById'   = u.t \cup {<<id, "mem", h>>}
       /\ dataByHash' = (h :> c) @@ u.d
       /\ idsByHash'  = u.r \cup {<<h, id>>}
  /\ abs' = {p \in abs : p[1] # id} \cup {<<id, c>>}
  /\ reply' = Ok

AddEmpty(id) == /\ reply' = ErrR /\ UNCHANGED storeVars        \* refused: nothing changes

RemoveTile(id) ==
  /\ LET u == Unbind(tileById, dataByHash, idsByHash, id) IN
       /\ tileById' = u.t /\ dataByHash' = u.d /\ idsByHash' = u.r
  /\ abs' = {p \in abs : p[1] # id}
  /\ reply' = Ok

\* the bytes a tile entry stands for: looked up under its hash, or read from the backing reader
Held(d, h) == h \in DOMAIN d
ContentOfEntry(x, d) == IF x[2] = "back" THEN x[3] ELSE d[x[3]]
GetTile(id) ==
  /\ reply' = IF id \in IdsOf(tileById)
              THEN LET x == EntryOf(tileById, id) IN
                   IF x[2] = "mem" /\ ~Held(dataByHash, x[3]) THEN None ELSE Some(ContentOfEntry(x, dataByHash))
              ELSE None
  /\ UNCHANGED storeVars

List  == /\ reply' = [kind |-> "ids", ids |-> IdsOf(tileById)] /\ UNCHANGED storeVars
Count == /\ reply' = [kind |-> "n", n |-> Cardinality(tileById)] /\ UNCHANGED storeVars

\* save + reopen: the written archive is read back; every tile is now reader-backed
SaveReopen == OpenedFrom(abs)

(* ---- properties ------------------------------------------------------------ *)
\* C04: the implementation-shaped state refines the map
Resolvable == \A x \in tileById : x[2] = "mem" => Held(dataByHash, x[3])
Refines == Resolvable /\ {<<x[1], ContentOfEntry(x, dataByHash)>> : x \in tileById} = abs
FunctionalAbs == Cardinality({p[1] : p \in abs}) = Cardinality(abs)
FunctionalT   == Cardinality(IdsOf(tileById)) = Cardinality(tileById)

\* C10 (retention): exactly one copy of each content some in-memory tile refers to, and none other
MemHashes == {x[3] : x \in {y \in tileById : y[2] = "mem"}}
MemContents == {dataByHash[h] : h \in DOMAIN dataByHash}
Retention ==
  /\ DOMAIN dataByHash = MemHashes                                  \* one copy per referenced hash, none unreferenced
  /\ idsByHash = {<<x[3], x[1]>> : x \in {y \in tileById : y[2] = "mem"}}

\* observations agree with the map
ObsAgree ==
  /\ reply.kind = "ids" => reply.ids = {p[1] : p \in abs}
  /\ reply.kind = "n"   => reply.n = Cardinality(abs)

\* C19: a refused call leaves everything as it was
RejectedIsStutter == [][reply'.kind = "err" => UNCHANGED storeVars]_vars

=============================================================================
