------------------------------- MODULE PMTiles -------------------------------
(***************************************************************************)
(* Composition of the specification: the archive builder (TileStore), the  *)
(* witness layout (Archive!CanonTiles), the writer as a sequence of stream  *)
(* operations that may be interrupted, and the reader -- end to end:        *)
(*                                                                         *)
(*   edit* ; Save = write root, metadata, data, header cell 1, header cell 2 *)
(*   (a crash may follow any operation) ; Open ; edit* ; ...               *)
(*                                                                         *)
(* The image is a sequence of cells; the root cell carries the entry list   *)
(* (with content tokens), the two header cells carry the section table.     *)
(* Checked: whatever opens is exactly the map that was saved (C01), a torn  *)
(* image opens only if it is complete (C17), the opened builder refines the *)
(* map again (C04 across save + reopen), edits after a reopen never change   *)
(* the saved image (the backing archive is read-only).                      *)
(***************************************************************************)
EXTENDS Integers, Sequences, FiniteSets, TLC
U == INSTANCE U64
A == INSTANCE Archive

CONSTANT NIds
N(n) == U!FromNat(n)
Ids == {N(k) : k \in 0..(NIds - 1)}
Contents == {<<1>>, <<2>>}
Empty == <<>>
Hash(c) == c

VARIABLES abs, tileById, dataByHash, idsByHash, reply,
          phase,        \* "edit" | "writing" | "crashed" | "complete"
          img,          \* cells written so far (sequence)
          todo,         \* cells still to be written by the running save
          saved         \* the map at the moment Save started
INSTANCE TileStore
sv == <<abs, tileById, dataByHash, idsByHash>>
allvars == <<abs, tileById, dataByHash, idsByHash, reply, phase, img, todo, saved>>

Proj == {<<x[1], ContentOfEntry(x, dataByHash)>> : x \in tileById}
Table == [root |-> 2, meta |-> 3, data |-> 4]              \* cell indices after the two header cells
Layout(m) == LET T == A!CanonTiles(m, Len) IN
             << [k |-> "root", T |-> T], [k |-> "meta", T |-> <<>>], [k |-> "data", T |-> <<>>],
                [k |-> "h1", T |-> <<>>], [k |-> "h2", T |-> <<>>] >>

Init == InitStore /\ phase = "edit" /\ img = <<>> /\ todo = <<>> /\ saved = {}

Edit == /\ phase = "edit"
        /\ \/ \E id \in Ids : \E c \in Contents : AddTile(id, c)
           \/ \E id \in Ids : AddEmpty(id)
           \/ \E id \in Ids : RemoveTile(id)
           \/ \E id \in Ids : GetTile(id)
        /\ UNCHANGED <<phase, img, todo, saved>>

\* to_writer consumes the builder: from here on only the stream changes
StartSave == /\ phase = "edit"
             /\ phase' = "writing" /\ img' = <<>> /\ todo' = Layout(Proj) /\ saved' = abs
             /\ UNCHANGED <<sv, reply>>
WriteOp == /\ phase = "writing" /\ todo # <<>>
           /\ img' = Append(img, Head(todo)) /\ todo' = Tail(todo)
           /\ phase' = IF Len(todo) = 1 THEN "complete" ELSE "writing"
           /\ UNCHANGED <<sv, reply, saved>>
Crash == /\ phase = "writing" /\ phase' = "crashed" /\ UNCHANGED <<sv, reply, img, todo, saved>>

\* the reader: header cells are the last two cells of a complete image
Kinds(image) == [i \in 1..Len(image) |-> image[i].k]
Opens(image) == Kinds(image) = <<"root", "meta", "data", "h1", "h2">>
OpenedMap(image) == A!Addressed(image[1].T)

Open == /\ phase \in {"complete", "crashed"} /\ Opens(img)
        /\ OpenedFrom(OpenedMap(img))
        /\ phase' = "edit" /\ UNCHANGED <<img, todo, saved>>
\* a crashed image that does not open ends the behaviour (the file is rejected)

Next == Edit \/ StartSave \/ WriteOp \/ Crash \/ Open
Spec == Init /\ [][Next]_allvars

RoundTrip == (phase \in {"complete", "crashed"} /\ Opens(img)) => OpenedMap(img) = saved
TornNeverOpens == (phase = "crashed") => ~Opens(img)
BuilderInv == (phase = "edit") => (Refines /\ FunctionalAbs /\ Retention)
Inv == RoundTrip /\ TornNeverOpens /\ BuilderInv
=============================================================================
