-------------------------------- MODULE U64 --------------------------------
(***************************************************************************)
(* 64-bit unsigned words for TLC.                                          *)
(*                                                                         *)
(* TLC integers are 32-bit Java ints and the Json module wraps values      *)
(* >= 2^31, so every 64-bit quantity of the PMTiles format (tile IDs,      *)
(* offsets, lengths, counters, varint payloads) is a 4-tuple of 16-bit     *)
(* limbs, MOST significant limb first.  Overflow / borrow are first-class  *)
(* results (the hostile-input properties need them as data).               *)
(***************************************************************************)
EXTENDS Naturals, Sequences

B == 65536

Zero == <<0, 0, 0, 0>>
One  == <<0, 0, 0, 1>>
Max  == <<65535, 65535, 65535, 65535>>

IsU64(a) == /\ DOMAIN a = 1..4
            /\ \A i \in 1..4 : a[i] \in 0..65535

\* n must be a TLC int in 0 .. 2^31-1
FromNat(n) == <<0, 0, (n \div B) % B, n % B>>

\* defined only when the value is < 2^31
IsSmall(a) == a[1] = 0 /\ a[2] = 0 /\ a[3] < 32768
ToNat(a)   == a[3] * B + a[4]

Add(a, b) ==
  LET s0 == a[4] + b[4]                 c0 == s0 \div B
      s1 == a[3] + b[3] + c0            c1 == s1 \div B
      s2 == a[2] + b[2] + c1            c2 == s2 \div B
      s3 == a[1] + b[1] + c2
  IN [v |-> <<s3 % B, s2 % B, s1 % B, s0 % B>>, carry |-> s3 \div B]

Sub(a, b) ==
  LET d0 == a[4] - b[4]                 b0 == IF d0 < 0 THEN 1 ELSE 0
      d1 == a[3] - b[3] - b0            b1 == IF d1 < 0 THEN 1 ELSE 0
      d2 == a[2] - b[2] - b1            b2 == IF d2 < 0 THEN 1 ELSE 0
      d3 == a[1] - b[1] - b2            b3 == IF d3 < 0 THEN 1 ELSE 0
  IN [v |-> <<(d3 + B) % B, (d2 + B) % B, (d1 + B) % B, (d0 + B) % B>>, borrow |-> b3]

Lt(a, b) == \/ a[1] < b[1]
            \/ a[1] = b[1] /\ a[2] < b[2]
            \/ a[1] = b[1] /\ a[2] = b[2] /\ a[3] < b[3]
            \/ a[1] = b[1] /\ a[2] = b[2] /\ a[3] = b[3] /\ a[4] < b[4]
Le(a, b) == a = b \/ Lt(a, b)

Succ(a)  == Add(a, One).v        \* wraps at Max (callers check)
Pred(a)  == Sub(a, One).v        \* wraps at Zero (callers check)
AddNat(a, n) == Add(a, FromNat(n))
Plus(a, b)  == Add(a, b).v
Minus(a, b) == Sub(a, b).v
MinU(a, b) == IF Lt(b, a) THEN b ELSE a
MaxU(a, b) == IF Lt(a, b) THEN b ELSE a

\* u32 values as they appear in entries (length, run length): limbs 1,2 are zero
IsU32(a) == a[1] = 0 /\ a[2] = 0
FromLimbs32(hi, lo) == <<0, 0, hi, lo>>

Pow2 == <<1, 2, 4, 8, 16, 32, 64, 128, 256, 512, 1024, 2048, 4096, 8192, 16384, 32768, 65536>>
P2(n) == Pow2[n + 1]                    \* n in 0..16

\* limb number j counted from the least significant end, j in 0..3; 0 beyond
LimbLS(a, j) == IF j \in 0..3 THEN a[4 - j] ELSE 0

(* little-endian bytes, as in the 127-byte header *)
ToLEBytes(a) == << a[4] % 256, a[4] \div 256, a[3] % 256, a[3] \div 256,
                   a[2] % 256, a[2] \div 256, a[1] % 256, a[1] \div 256 >>
FromLEBytes(s) == << s[7] + 256 * s[8], s[5] + 256 * s[6], s[3] + 256 * s[4], s[1] + 256 * s[2] >>

(* 7-bit groups, least significant first (LEB128 digits); k in 0..9 *)
Septet(a, k) ==
  LET p == 7 * k   j == p \div 16   s == p % 16
      lo == LimbLS(a, j) \div P2(s)
      hi == (LimbLS(a, j + 1) % 128) * P2(16 - s)
  IN (lo + hi) % 128

\* number of significant septets, at least 1
NumSeptets(a) ==
  IF a = Zero THEN 1
  ELSE CHOOSE n \in 1..10 : /\ Septet(a, n - 1) # 0
                            /\ \A k \in n..9 : Septet(a, k) = 0

\* value of the septet sequence s (1-based, least significant first, Len <= 10),
\* truncated to 64 bits; FromSeptetsOverflow tells whether bits were lost
FromSeptets(s) ==
  LET m == Len(s)
      Limb(j) ==       \* j from least significant, 0..3 : bits 16j .. 16j+15
        LET Contribution(k) ==      \* k in 0..m-1
              LET lo == 7 * k IN
              IF lo + 6 < 16 * j \/ lo > 16 * j + 15 THEN 0
              ELSE IF lo >= 16 * j THEN (s[k + 1] * P2(lo - 16 * j)) % B
              ELSE s[k + 1] \div P2(16 * j - lo)
            Sum[k \in 0..m] == IF k = 0 THEN 0 ELSE Sum[k - 1] + Contribution(k - 1)
        IN Sum[m]
  IN <<Limb(3), Limb(2), Limb(1), Limb(0)>>
FromSeptetsOverflow(s) == Len(s) > 10 \/ (Len(s) = 10 /\ s[10] > 1)

=============================================================================
