------------------------------- MODULE MC_Tree -------------------------------
(***************************************************************************)
(* Bounded instance for directory trees: every tree with a root of up to   *)
(* two entries and two leaves (pointers may form self- and 2-cycles and    *)
(* may be dangling-free but non-monotone), every combination of bound      *)
(* kinds with endpoints at 0, inside, at the top and at u64::MAX.          *)
(*  - FilteredEqualsRestricted (C11): the skipping reader = full reader    *)
(*    restricted to the range, whenever pointer IDs are lower bounds;      *)
(*  - LookupAgrees (C02/C03): the v3 lookup procedure = resolution, on     *)
(*    valid trees;                                                         *)
(*  - resolution is total (cycles end in "too_deep", never diverge).       *)
(***************************************************************************)
EXTENDS Integers, Sequences, FiniteSets, TLC
U  == INSTANCE U64
D  == INSTANCE Directory
A  == INSTANCE Archive
DT == INSTANCE DirTree

CONSTANTS MaxId, LeafLen
N(n) == U!FromNat(n)
Ids == 0..MaxId
TileE(id, r) == D!Entry(N(id), N(r), N(1), N(10 + id))
PtrE(id, t)  == D!Entry(N(id), U!Zero, N(1), N(t))          \* the leaf is named by offset t
Entries == {TileE(id, r) : id \in Ids, r \in 1..2} \cup {PtrE(id, t) : id \in Ids, t \in 1..2}
Dirs(n) == {<<>>} \cup {<<e>> : e \in Entries}
           \cup (IF n >= 2 THEN {<<a, b>> : a \in Entries, b \in Entries} ELSE {})
ValidDirs(n) == {d \in Dirs(n) : D!ValidDir(d)}
\* constant-level definitions are evaluated once by TLC
Roots  == ValidDirs(2)
Leaf1s == ValidDirs(LeafLen) \ {<<>>}
Leaf2s == ValidDirs(1) \ {<<>>}

VARIABLE t
\* two stages so that TLC's workers share the enumeration: Init fixes the root, Next the leaves
Init == \E root \in Roots : t = [root |-> root, leaves |-> <<>>]
Next == /\ t.leaves = <<>>
        /\ \E l1 \in Leaf1s : \E l2 \in Leaf2s :
             t' = [root |-> t.root,
                   leaves |-> << [off |-> N(1), len |-> N(1), entries |-> l1],
                                 [off |-> N(2), len |-> N(1), entries |-> l2] >>]
Spec == Init /\ [][Next]_t

Kinds == {"inc", "exc", "unb"}
Points == {U!Zero, N(1), N(MaxId), N(MaxId + 3), U!Max}
Bounds == {[k |-> k, v |-> v] : k \in Kinds, v \in Points}

FilteredEqualsRestricted ==
  DT!MinIdOK(t.root, t.leaves, 1) =>
    LET RS == DT!ResolveSet(t.root, t.leaves) IN
    \A lo \in Bounds : \A hi \in Bounds :
       DT!ReadFiltered(t.root, t.leaves, lo, hi, 1) = DT!RestrictTo(RS, lo, hi)

Resolved == A!ResolveDir(t.root, t.leaves, 1)
Acyclic == \A i \in 1..Len(Resolved) : ~A!IsBad(Resolved[i])
ValidTree ==
  /\ Acyclic /\ D!ValidDir(Resolved)
  /\ \A E \in {t.root, t.leaves[1].entries, t.leaves[2].entries} : \A i \in 1..Len(E) :
        D!IsLeafPtr(E[i]) => E[i].id = t.leaves[U!ToNat(E[i].off)].entries[1].id

LookupAgrees ==
  ValidTree =>
    \A id \in {N(k) : k \in 0..(MaxId + 2)} :
       LET r == A!LookupDir(t.root, t.leaves, id, 1)
           hits == {p \in DT!ResolveSet(t.root, t.leaves) : p[1] = id}
       IN IF hits = {} THEN r.kind = "none"
          ELSE r.kind = "some" /\ hits = {<<id, r.off, r.len>>}

Inv == t.leaves # <<>> => (FilteredEqualsRestricted /\ LookupAgrees)
\* non-vacuity: trees with cycles, valid trees with pointers, and skipped leaves all occur
ASSUME \E e \in Entries : D!IsLeafPtr(e)
=============================================================================
