SPECIFICATION Spec
CONSTANTS MaxP = 2
  Variant = "relative"
INVARIANT Safety
CHECK_DEADLOCK FALSE
