SPECIFICATION Spec
CONSTANT NIds = 3
INVARIANT Inv
PROPERTY RejectedIsStutter
CHECK_DEADLOCK FALSE
