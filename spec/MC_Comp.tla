-------------------------------- MODULE MC_Comp --------------------------------
(***************************************************************************)
(* The compression adapters (C14) as a state machine over an               *)
(* UNINTERPRETED codec: Enc wraps the written bytes into an opaque token,  *)
(* Dec unwraps it; the only law is Dec(Enc(x)) = x.  "none" is the          *)
(* identity, "unknown" has no Open transition in any factory.              *)
(* Explored: every way to split every string over {a, b} of length <= 3    *)
(* into write calls, with flushes anywhere, for every codec.               *)
(* The emitted image is required to decode only after Finish (drop of the  *)
(* sync writer, close of the async one).                                   *)
(***************************************************************************)
EXTENDS Integers, Sequences, TLC
Codecs == {"unknown", "none", "gzip", "brotli", "zstd"}
Alphabet == {1, 2}
MaxLen == 3

VARIABLES codec, state, pending, written, emitted
\* state: "closed" | "open" | "finished" | "refused"; written: bytes handed to the adapter so far
\* pending: bytes buffered inside the adapter; emitted: what has reached the sink
vars == <<codec, state, pending, written, emitted>>

Enc(x) == <<"stream", x>>               \* opaque, injective
Dec(z) == z[2]

Init == codec \in Codecs /\ state = "closed" /\ pending = <<>> /\ written = <<>> /\ emitted = [kind |-> "nothing"]
Open == /\ state = "closed"
        /\ state' = IF codec = "unknown" THEN "refused" ELSE "open"
        /\ UNCHANGED <<codec, pending, written, emitted>>
Write == /\ state = "open" /\ Len(written) < MaxLen
         /\ \E n \in 1..(MaxLen - Len(written)) : \E chunk \in [1..n -> Alphabet] :
              /\ written' = written \o chunk
              /\ IF codec = "none" THEN emitted' = [kind |-> "plain", bytes |-> written \o chunk] /\ pending' = <<>>
                 ELSE pending' = pending \o chunk /\ UNCHANGED emitted
         /\ UNCHANGED <<codec, state>>
Flush == /\ state = "open"                 \* a flush may push buffered data but never completes a codec stream
         /\ IF codec = "none" THEN UNCHANGED emitted ELSE emitted' = [kind |-> "partial", bytes |-> pending]
         /\ UNCHANGED <<codec, state, pending, written>>
Finish == /\ state = "open" /\ state' = "finished"
          /\ emitted' = IF codec = "none" THEN [kind |-> "plain", bytes |-> written] ELSE [kind |-> "complete", z |-> Enc(pending)]
          /\ UNCHANGED <<codec, pending, written>>
Next == Open \/ Write \/ Flush \/ Finish
Spec == Init /\ [][Next]_vars

Decoded == IF emitted.kind = "plain" THEN emitted.bytes ELSE Dec(emitted.z)
\* compress then decompress is the identity, whatever the chunking and flushing
RoundTrip == state = "finished" => Decoded = written
\* "unknown" is always an error and never produces output
UnknownRefused == codec = "unknown" => state \in {"closed", "refused"} /\ emitted.kind = "nothing"
\* before Finish a codec stream is not complete
NotBeforeFinish == (state = "open" /\ codec \notin {"none", "unknown"}) => emitted.kind \in {"nothing", "partial"}
Inv == RoundTrip /\ UnknownRefused /\ NotBeforeFinish
=============================================================================
