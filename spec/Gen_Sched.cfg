SPECIFICATION Spec
CONSTANT MaxN = 10
INVARIANT Sound
INVARIANT Gen
CHECK_DEADLOCK FALSE
