SPECIFICATION Spec
CONSTANTS MaxId = 3
  LeafLen = 2
INVARIANT Inv
CHECK_DEADLOCK FALSE
