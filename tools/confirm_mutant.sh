#!/bin/sh
# usage: confirm_mutant.sh <name e.g. C04_1>   -- confirm a seeded change in a scratch worktree and store it under /verif/seeded/
# checks: patch applies; suite passes with it (default + async features); demo passes without it and fails with it
n="$1"; pid=$(python3 -c "import json,sys; print(json.load(open(\"/tmp/mut_$n.json\")).get(\"property\",\"$n\").split()[0].strip(\",\"))" 2>/dev/null || echo "$n" | cut -d_ -f1)
wt=/tmp/cm_$n; out=/verif/seeded/$n; log=/tmp/cm_$n.log
rm -rf "$wt"; git -C /repo worktree add -q --detach "$wt" HEAD || exit 2
mkdir -p "$wt/tests"; cp /tmp/mut_${n}_demo.rs "$wt/tests/demo_${n}.rs"
export CARGO_NET_OFFLINE=true CARGO_TARGET_DIR=/tmp/cm_target
cd "$wt"
feat=""; grep -q 'feature = "async"' tests/demo_${n}.rs && feat="--features async"
grep -q "futures\|_async" tests/demo_${n}.rs && feat="--features async"
cargo test --offline $feat --test demo_${n} >"$log" 2>&1; demo_clean=$?
git apply /tmp/mut_$n.patch >>"$log" 2>&1 || { echo "$n: patch does not apply"; exit 2; }
cargo test --offline --lib >>"$log" 2>&1; suite=$?
cargo test --offline --features async --lib >>"$log" 2>&1; suite_async=$?
cargo test --offline $feat --test demo_${n} >>"$log" 2>&1; demo_mut=$?
cd /; git -C /repo worktree remove --force "$wt"
echo "$n: demo_clean=$demo_clean suite=$suite suite_async=$suite_async demo_mutant=$demo_mut"
if [ $demo_clean -eq 0 ] && [ $suite -eq 0 ] && [ $suite_async -eq 0 ] && [ $demo_mut -ne 0 ]; then
  mkdir -p "$out"; cp /tmp/mut_$n.patch "$out/patch.diff"; cp /tmp/mut_${n}_demo.rs "$out/demo.rs"
  python3 - "$n" "$pid" <<'PY'
import json,sys
n,pid=sys.argv[1],sys.argv[2]
src=json.load(open(f'/tmp/mut_{n}.json'))
meta={"property":pid,"summary":src.get("summary"),"needs":src.get("needs"),
      "confirmed":{"demo_passes_on_clean_tree":True,"unit_suite_passes_with_change":True,"unit_suite_async_passes_with_change":True,"demo_fails_with_change":True,
                   "how":"tools/confirm_mutant.sh in a scratch worktree of /repo HEAD (cargo test --offline --lib, --features async --lib, --test demo)"},
      "author_notes":src.get("verified")}
json.dump(meta,open(f'/verif/seeded/{n}/meta.json','w'),indent=1)
PY
  echo "$n: KEPT"
else
  echo "$n: NOT confirmed (see $log)"
fi
