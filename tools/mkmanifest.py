#!/usr/bin/env python3
"""Regenerate /verif/MANIFEST.json from the table below (kept next to the checks so it stays current)."""
import json, os
ROOT = os.path.dirname(os.path.dirname(os.path.abspath(__file__)))
TECH = "explicit TLA+ specification ({mods}) + TLC bounded model checking ({mc}) + trace validation of library events by TLC"
NOTE = ("Bounded: TLC explores the specification exhaustively only within the stated small constants; the library is observed on the "
        "TLC-generated and seeded cases, not on all inputs. Trusted: TLC, the TLA+ transcription of the PMTiles v3 text, the harness' "
        "transport (JSON, limb encoding, interning by byte equality, upstream codec crates for decompression).")
CLAIMED = {
 "C01": ("Round trip: TLC checks on all histories of the small store model that reading the witness layout back gives the map; every bulk archive (0..5000/50000 tiles, all codecs, sync/async writer and reader) is written and reopened by the library and TLC compares the file's addressed tiles, the reopened listing/count/lookups (incl. absent neighbours), settings, metadata and E7 coordinates with the map it built from the logged adds.", "TileStore, Archive, Header, Directory", "MC_Store", "5 (C01)"),
 "C02": ("Validity for an independent reader: the reader is the TLA+ operator Archive!WellFormed (header, sections inside/disjoint, 16 KiB budget, directories parsed from the raw bytes with Directory!ParsesTo, ascending non-overlapping entries, tile ranges inside the data section, the three counters recomputed, clustered flag, metadata kind) evaluated by TLC on every file the bulk driver makes the library write, including leaf-spill archives and all codecs.", "Archive, Directory, Header, Varint, U64", "MC_Store", "5 (C02)"),
 "C04": ("Map semantics: TLC explores all histories of add/replace/remove/lookup/list/count/empty-add/save+reopen over 3 (4) adjacent IDs and colliding contents (closed state space) and checks Refines/ObsAgree; seeded long histories on the real library (8-20 IDs, colliding contents, save+reopen sync/async) are validated event by event against the same TileStore actions.", "TileStore", "MC_Store", "5 (C04)"),
 "C05": ("Directory wire format: TLC checks the codec laws (lossless, canonical, offset rule, zero-length refusal) on every directory of <=3 entries over boundary sets, generates those cases with their v3 bytes for replay, and validates every serialisation/parse the library performs on them and on seeded random directories (up to 5000/100000 entries, 4 codecs, sync+async) by recomputing Directory!EncDir in TLC.", "Directory, Varint, U64", "MC_Codec", "5 (C05)"),
 "C07": ("Hilbert IDs: TLC proves on every tile of zooms <=6 (quick) / <=8 (thorough) that the literal v3 reference algorithm, the transducer and its table form agree and that the structural theorems (contiguous blocks, inverse, edge adjacency, child nesting) hold; every tile_id of zooms <=8/10, every zxy of the low zooms, boundary/random points at all zooms 0..31 and coordinate lookups in and outside the grid observed on the library are recomputed by TLC.", "Hilbert, U64", "MC_Hilbert", "5 (C07)"),
 "C09": ("Header: TLC checks Enc/Dec laws over boundary headers; every truncation, every enum code, magic/version corruptions, random/boundary headers, a strided sweep of stored coordinates through all six fields and sampled degree values are run through all header APIs (sync+async) and each observation is judged by Header!DecHeader/EncHeader/NearestOK in TLC.", "Header, U64", "MC_Codec", "5 (C09)"),
 "C10": ("Dedup / run-length: TLC checks Retention in every reachable state of the small store model and that the witness writer is exact and minimal; on the real library the hook's map sizes after every add/remove of long random histories are compared with the model's retention sets, and every saved file is checked with Archive!DedupExact, DataExact and RunsMaximal against the map.", "TileStore, Archive", "MC_Store", "5 (C10)"),
 "C16": ("Canonical output: in the model the emitted layout is a function of the map (SaveFunctional over all reachable implementation-shaped states); on the library, for each logical target several histories (permuted, detoured, save+reopen in the middle) run alternately in-process and in fresh OS processes, and TLC -- which recomputes every history's map -- requires equal file tokens whenever map, settings and API are equal; re-writing a just-read archive must reproduce the bytes.", "TileStore, Archive", "MC_Store", "5 (C16)"),
}
def main():
    props = [json.loads(l) for l in open(os.path.join(ROOT, "properties.jsonl"))]
    checks = []
    for pid, (text, mods, mc, ref) in sorted(CLAIMED.items()):
        checks.append({"property_id": pid, "quick_cmd": f"bin/check {pid} --tier quick", "thorough_cmd": f"bin/check {pid} --tier thorough",
                       "evidence_file": f"evidence/{pid}.json", "replay_cmd_template": f"bin/check {pid} --replay {{path}}", "engine": "tlc-trace",
                       "level_claimed": {"category": "model_checking", "text": text, "design_ref": ref},
                       "level_note": NOTE, "technique": TECH.format(mods=mods, mc=mc)})
    na = [{"property_id": p["id"], "reason": "check under construction in this session (specification module and trace family not yet bound); will be claimed once its check runs green"}
          for p in props if p["id"] not in CLAIMED]
    m = {"version": 1, "setup_cmd": "cd harness && cargo build --offline",
         "hooks": {"guard": "cargo feature `verif` of pmtiles2",
                   "enable": "harness/Cargo.toml depends on /repo with features [\"async\",\"verif\"]; checks rebuild it with cargo build --offline",
                   "baseline_off_cmd": "cd /repo && cargo test --workspace --no-fail-fast --offline",
                   "source_commits": ["04559a2"], "add_only": True},
         "engines": [{"name": "tlc-trace", "path": "bin/check", "serves_properties": sorted(CLAIMED),
                      "kind_free_text": "python3 orchestrator: TLC bounded model checking of spec/*.tla, TLC-generated stimuli, Rust harness (harness/) driving pmtiles2, TLC trace validation of the recorded events"}],
         "checks": checks, "not_applicable": na,
         "notes": "All verdicts are decided by TLC evaluating the TLA+ specification in spec/. Exit 2 = tool error (never a verdict)."}
    json.dump(m, open(os.path.join(ROOT, "MANIFEST.json"), "w"), indent=1)
main()
