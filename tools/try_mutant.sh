#!/bin/sh
# usage: try_mutant.sh <patch> <Cxx> [<Cyy> ...]  -- apply a seeded change to /repo, run checks, undo
patch="$1"; shift
cd /repo || exit 2
if ! git diff --quiet; then echo "repo dirty"; exit 2; fi
git apply "$patch" || { echo "patch does not apply"; exit 2; }
for p in "$@"; do
  out=$(cd /verif && bin/check "$p" 2>&1); rc=$?
  echo "== $p rc=$rc: $(echo "$out" | grep -c '^VIOLATION') violation lines; $(echo "$out" | grep -E '^VIOLATION|TOOL-ERROR' | sed 's/.*# //' | sort | uniq -c | head -4 | tr '\n' ';')"
done
git -C /repo checkout -- . 
