#!/usr/bin/env python3
"""Systematic mutation sweep: small syntactic changes to /repo/src (operator flips, off-by-one constants, dropped
statements, arithmetic-mode swaps), each tried in scratch copies of /repo and /verif under /tmp (never in /repo itself):

  1. the repository's own unit tests are run on the changed copy; a change they reject is of no interest;
  2. the quick checks mapped to the changed file are run (from the scratch copy of /verif, whose harness depends on
     the scratch copy of the repository) until one reports a VIOLATION.

Usage:  mutation_sweep.py gen  OUT.jsonl                 list the candidate mutants of /repo's HEAD
        mutation_sweep.py run  IN.jsonl OUTDIR K/N       worker K of N: try every N-th candidate, append to OUTDIR/results.K.jsonl
        mutation_sweep.py report OUTDIR                  summary + survivors

The scratch copies live in /tmp/sweep/<K>; remove them afterwards (rm -rf /tmp/sweep).
"""
import json, os, re, subprocess, sys, time, random, shutil

REPO = "/repo"
VERIF = os.path.dirname(os.path.dirname(os.path.abspath(__file__)))

FILE_CHECKS = {
    "src/directory.rs": ["C05", "C06", "C19", "C08", "C03", "C12"],
    "src/header/mod.rs": ["C09", "C01", "C02", "C12"],
    "src/header/lat_lng.rs": ["C09", "C01"],
    "src/header/compression.rs": ["C09", "C14", "C01"],
    "src/header/tile_type.rs": ["C09", "C01"],
    "src/util/tile_id.rs": ["C07", "C01"],
    "src/tile_manager.rs": ["C04", "C10", "C19", "C01", "C16", "C02"],
    "src/pmtiles.rs": ["C01", "C07", "C03", "C11", "C02", "C20", "C13", "C17", "C18", "C15", "C12", "C08", "C16", "C04", "C19", "C10", "C14"],
    "src/util/compress.rs": ["C14", "C01", "C12"],
    "src/util/read_directories.rs": ["C03", "C11", "C08", "C12"],
    "src/util/write_directories.rs": ["C06", "C02", "C16", "C01"],
    "src/lib.rs": ["C09"],
}

SWAPS = [
    (r" == ", " != "), (r" != ", " == "),
    (r" < ", " <= "), (r" <= ", " < "), (r" > ", " >= "), (r" >= ", " > "),
    (r" < ", " > "), (r" > ", " < "),
    (r" \+ ", " - "), (r" - ", " + "), (r" \+= ", " -= "), (r" -= ", " += "),
    (r" \* ", " / "), (r" << ", " >> "), (r" >> ", " << "), (r" & ", " | "), (r" \| ", " & "), (r" \^ ", " | "),
    (r" && ", " || "), (r" \|\| ", " && "),
    (r"\btrue\b", "false"), (r"\bfalse\b", "true"),
    (r"\bchecked_add\b", "wrapping_add_MUT"), (r"\bchecked_sub\b", "wrapping_sub_MUT"),
    (r"\bsaturating_sub\b", "wrapping_sub"), (r"\bsaturating_add\b", "wrapping_add"),
    (r"\.min\(", ".max("), (r"\.max\(", ".min("),
    (r"\.is_empty\(\)", ".is_empty() == false"), (r"\.is_some\(\)", ".is_none()"), (r"\.is_none\(\)", ".is_some()"),
    (r"\bOrdering::Less\b", "Ordering::Greater"), (r"\bOrdering::Greater\b", "Ordering::Less"),
    (r"\.first\(\)", ".last()"), (r"\.last\(\)", ".first()"),
    (r"\bu64::MAX\b", "u64::MAX - 1"), (r"\bu32::MAX\b", "u32::MAX - 1"),
    (r"\.rev\(\)", ""), (r"!self\.", "self."), (r"if !", "if "),
    (r"\.start\b", ".end"), (r"\.end\b", ".start"),
    (r"\.offset\b", ".length as u64"),
]


def code_part(line):
    """the part of a line before a // comment (quotes respected crudely)"""
    out, q = [], False
    i = 0
    while i < len(line):
        c = line[i]
        if c == '"' and (i == 0 or line[i - 1] != "\\"):
            q = not q
        if not q and line.startswith("//", i):
            break
        out.append(c); i += 1
    return "".join(out)


def in_string(code, pos):
    return code[:pos].count('"') % 2 == 1


def gen():
    files = subprocess.check_output(["git", "-C", REPO, "ls-files", "src"], text=True).split()
    muts = []
    for rel in files:
        if not rel.endswith(".rs") or rel not in FILE_CHECKS:
            continue
        lines = open(os.path.join(REPO, rel)).read().split("\n")
        skip_from = len(lines)
        for i, ln in enumerate(lines):
            if ln.strip().startswith("#[cfg(test)]") and any("mod test" in x for x in lines[i + 1:i + 4]):
                skip_from = i
                break
        in_verif = 0
        for i, ln in enumerate(lines[:skip_from]):
            s = ln.strip()
            if 'feature = "verif"' in s:
                in_verif = 1
            if in_verif:
                # the hook: skip until the item closes (a line that is just "}" at 4 spaces or less)
                if re.match(r"^ {0,4}\}\s*$", ln):
                    in_verif = 0
                continue
            if not s or s.startswith("//") or s.startswith("#[") or s.startswith("#!") or s.startswith("use ") or s.startswith("pub use "):
                continue
            code = code_part(ln)
            tail = ln[len(code):]
            def add(op, new_code):
                if new_code != code:
                    muts.append({"file": rel, "line": i + 1, "op": op, "before": ln, "after": new_code + tail})
            for pat, rep in SWAPS:
                for m in re.finditer(pat, code):
                    if in_string(code, m.start()):
                        continue
                    if pat == r" \+ " and re.search(r"(impl |dyn |where |: |\[)[\w<>:, ]*$", code[:m.start()]) and re.match(r" \+ ('?[A-Z']|')", code[m.start():]):
                        continue
                    r = rep.replace("_MUT", "")
                    new = code[:m.start()] + r + code[m.end():]
                    if "_MUT" in rep:
                        # checked_x(..) returns Option: turn `a.checked_add(b)` into `Some(a.wrapping_add(b))` is not
                        # expressible by a token swap; use the form `.wrapping_add(b)).into()`-free trick instead:
                        # replace `X.checked_add(Y)` with `Some(X.wrapping_add(Y))` only when on one line
                        mm = re.search(r"([\w\.\[\]\(\):]+?)\.(checked_(add|sub))\(([^()]*(\([^()]*\))?[^()]*)\)", code)
                        if not mm:
                            continue
                        new = code[:mm.start()] + f"Some({mm.group(1)}.wrapping_{mm.group(3)}({mm.group(4)}))" + code[mm.end():]
                    add(f"swap {pat.strip()} -> {rep.strip()}", new)
            # integer literals
            for m in re.finditer(r"(?<![\w.#])(\d[\d_]*)(?![\w.])", code):
                if in_string(code, m.start()):
                    continue
                v = int(m.group(1).replace("_", ""))
                for nv in ([v + 1] + ([v - 1] if v > 0 else [])):
                    add(f"const {v} -> {nv}", code[:m.start()] + str(nv) + code[m.end():])
            # conditions forced
            m = re.match(r"^(\s*(?:\} else )?if )(?!let )(.+)( \{\s*)$", code)
            if m:
                add("if -> true", m.group(1) + "true" + m.group(3))
                add("if -> false", m.group(1) + "false" + m.group(3))
            m = re.match(r"^(\s*while )(?!let )(.+)( \{\s*)$", code)
            if m:
                add("while -> false", m.group(1) + "false" + m.group(3))
            # dropped statement (single-line, balanced, not a binding or control transfer)
            if s.endswith(";") and not re.match(r"^(let |return|use |pub |const |static |type |break|continue|\}|Ok\(|Err\()", s) \
                    and code.count("(") == code.count(")") and code.count("{") == code.count("}"):
                add("drop statement", re.match(r"^\s*", code).group(0) + "/* dropped */")
            # early return of the error dropped: `return Err(..);`
            # `?` dropped is a type error; skipped
    if os.environ.get("SWEEP_GEN") == "2":
        muts = gen2(files)
    # de-duplicate
    seen, out = set(), []
    for m in muts:
        k = (m["file"], m["line"], m["after"])
        if k not in seen:
            seen.add(k); out.append(m)
    for n, m in enumerate(out):
        m["id"] = n
    return out


def gen2(files):
    """second operator set: values of adjacent struct fields exchanged, the two components of a pair exchanged,
    one of two adjacent similar statements duplicated over the other"""
    muts = []
    for rel in files:
        if not rel.endswith(".rs") or rel not in FILE_CHECKS:
            continue
        lines = open(os.path.join(REPO, rel)).read().split("\n")
        skip_from = len(lines)
        for i, ln in enumerate(lines):
            if ln.strip().startswith("#[cfg(test)]") and any("mod test" in x for x in lines[i + 1:i + 4]):
                skip_from = i
                break
        fld = re.compile(r"^(\s*)(\w+)(?:: (.+))?,\s*$")
        for i in range(skip_from - 1):
            a, b = fld.match(lines[i]), fld.match(lines[i + 1])
            if a and b and a.group(1) == b.group(1) and not lines[i].strip().startswith("//"):
                va, vb = a.group(3) or a.group(2), b.group(3) or b.group(2)
                if va != vb:
                    # two-line mutant: encoded as a replacement of line i by both new lines, and line i+1 emptied
                    na = f"{a.group(1)}{a.group(2)}: {vb},"
                    nb = f"{b.group(1)}{b.group(2)}: {va},"
                    muts.append({"file": rel, "line": i + 1, "op": "exchange adjacent field values", "before": lines[i],
                                 "after": na, "line2": i + 2, "before2": lines[i + 1], "after2": nb})
            arg = re.compile(r"^(\s*)([^:{}]+),\s*$")
            a2, b2 = arg.match(lines[i]), arg.match(lines[i + 1])
            if a2 and b2 and a2.group(1) == b2.group(1) and a2.group(2) != b2.group(2) and not lines[i].strip().startswith("//"):
                muts.append({"file": rel, "line": i + 1, "op": "exchange adjacent arguments", "before": lines[i], "after": lines[i + 1],
                             "line2": i + 2, "before2": lines[i + 1], "after2": lines[i]})
            code = code_part(lines[i])
            for m in re.finditer(r"\(([\w\.\*&]+), ([\w\.\*&]+)\)", code):
                if in_string(code, m.start()) or m.group(1) == m.group(2):
                    continue
                new = code[:m.start()] + f"({m.group(2)}, {m.group(1)})" + code[m.end():]
                muts.append({"file": rel, "line": i + 1, "op": "exchange pair components", "before": lines[i], "after": new + lines[i][len(code):]})
    return muts


def sh(cmd, cwd=None, timeout=None, env=None):
    try:
        p = subprocess.run(cmd, shell=True, cwd=cwd, timeout=timeout, env=env, stdout=subprocess.PIPE, stderr=subprocess.STDOUT, text=True)
        return p.returncode, p.stdout
    except subprocess.TimeoutExpired as e:
        return 124, (e.stdout or b"").decode(errors="replace") if isinstance(e.stdout, bytes) else (e.stdout or "")


def setup(k):
    base = f"/tmp/sweep/{k}"
    if os.path.isdir(base):
        shutil.rmtree(base)
    os.makedirs(base + "/repo")
    subprocess.check_call(f"git -C {REPO} archive HEAD | tar -x -C {base}/repo", shell=True)
    subprocess.check_call(
        f"rsync -a --exclude work --exclude harness/target --exclude .git --exclude seeded --exclude refactors --exclude findings/*.bin {VERIF}/ {base}/verif/", shell=True)
    ct = open(f"{base}/verif/harness/Cargo.toml").read().replace('path = "/repo"', f'path = "{base}/repo"')
    open(f"{base}/verif/harness/Cargo.toml", "w").write(ct)
    return base


def run(inp, outdir, spec, only=None):
    k, n = (int(x) for x in spec.split("/"))
    muts = [json.loads(l) for l in open(inp)]
    os.makedirs(outdir, exist_ok=True)
    resf = f"{outdir}/results.{k}.jsonl" if only is None else f"{outdir}/recheck.jsonl"
    done = set()
    if os.path.exists(resf) and only is None:
        done = {json.loads(l)["id"] for l in open(resf)}
    base = setup(int(os.environ.get("SWEEP_SLOT", k)))
    env = dict(os.environ, CARGO_NET_OFFLINE="true")
    rc, out = sh("cargo test --lib --offline 2>&1 | tail -5", cwd=base + "/repo", timeout=1200, env=env)
    if "test result: ok" not in out:
        print("baseline tests failed in scratch copy", out); sys.exit(2)
    mine = [m for m in muts if m["id"] % n == k and m["id"] not in done]
    if only is not None:
        mine = [m for m in muts if m["id"] in only]
    for m in mine:
        path = f"{base}/repo/{m['file']}"
        orig = open(path).read()
        lines = orig.split("\n")
        assert lines[m["line"] - 1] == m["before"], m
        lines[m["line"] - 1] = m["after"]
        if "line2" in m:
            assert lines[m["line2"] - 1] == m["before2"], m
            lines[m["line2"] - 1] = m["after2"]
        open(path, "w").write("\n".join(lines))
        t0 = time.time()
        res = dict(m)
        rc, out = sh("timeout 240 cargo test --lib --offline 2>&1 | tail -40", cwd=base + "/repo", timeout=300, env=env)
        if "error" in out and "could not compile" in out:
            res["tests"] = "build_fail"
        elif "test result: ok" in out:
            res["tests"] = "pass"
        elif "test result: FAILED" in out or "panicked" in out:
            res["tests"] = "fail"
        else:
            res["tests"] = "timeout_or_other"
        res["checks"] = {}
        res["verdict"] = "rejected_by_tests"
        if res["tests"] == "pass":
            res["verdict"] = "SURVIVED"
            for c in FILE_CHECKS[m["file"]]:
                rc, out = sh(f"timeout 1500 bin/check {c} 2>&1", cwd=base + "/verif", timeout=1560, env=env)
                out = "\n".join(out.split("\n")[-30:])
                viol = [l for l in out.split("\n") if l.startswith("VIOLATION")]
                tool = [l for l in out.split("\n") if "TOOL-ERROR" in l or "tool error" in l.lower()]
                if viol:
                    res["checks"][c] = "VIOLATION"
                    res["detail"] = "\n".join(out.split("\n")[-8:])[:1500]
                    res["verdict"] = "caught"
                    break
                elif rc == 124:
                    res["checks"][c] = "timeout"
                    if res["verdict"] == "SURVIVED":
                        res["verdict"] = "tool_error_only"
                elif tool or rc == 2:
                    res["checks"][c] = "tool_error: " + (tool[0][:300] if tool else "")
                    if res["verdict"] == "SURVIVED":
                        res["verdict"] = "tool_error_only"
                else:
                    res["checks"][c] = "pass"
        res["secs"] = round(time.time() - t0)
        open(path, "w").write(orig)
        with open(resf, "a") as f:
            f.write(json.dumps(res) + "\n")
        print(k, m["id"], m["file"], m["line"], m["op"], res["tests"], res["verdict"], res["secs"], flush=True)


def report(outdir):
    rs = []
    for fn in sorted(os.listdir(outdir)):
        if fn.startswith("results.") or (fn == "recheck.jsonl" and os.environ.get("SWEEP_RECHECK")):
            rs += [json.loads(l) for l in open(os.path.join(outdir, fn))]
    from collections import Counter
    print("tried", len(rs), Counter(r["verdict"] for r in rs))
    by = Counter((r["file"], r["verdict"]) for r in rs)
    for k in sorted(by):
        print("  ", k, by[k])
    catchers = Counter(c for r in rs if r["verdict"] == "caught" for c, v in r["checks"].items() if v == "VIOLATION")
    print("caught by", dict(catchers))
    for r in sorted(rs, key=lambda r: (r["file"], r["line"])):
        if r["verdict"] in ("SURVIVED", "tool_error_only"):
            print(f"{r['verdict']} #{r['id']} {r['file']}:{r['line']} [{r['op']}]\n    - {r['before'].strip()}\n    + {r['after'].strip()}\n    {r['checks']}")


if __name__ == "__main__":
    if sys.argv[1] == "gen":
        ms = gen()
        random.Random(7).shuffle(ms)
        for n, m in enumerate(ms):
            m["id"] = n
        with open(sys.argv[2], "w") as f:
            for m in ms:
                f.write(json.dumps(m) + "\n")
        from collections import Counter
        print(len(ms), Counter(m["file"] for m in ms))
    elif sys.argv[1] == "run":
        run(sys.argv[2], sys.argv[3], sys.argv[4])
    elif sys.argv[1] == "recheck":
        # recheck IN.jsonl OUTDIR id,id,...   (scratch slot 9, results in OUTDIR/recheck.jsonl)
        run(sys.argv[2], sys.argv[3], "9/1", only={int(x) for x in sys.argv[4].split(",")})
    elif sys.argv[1] == "report":
        report(sys.argv[2])
