#!/bin/sh
# usage: try_refactor.sh <abs patch> <Cxx> [<Cyy> ...]  -- apply a behaviour-preserving change to /repo, run the checks
# (3 at a time), undo.  Any exit code other than 0 is either a false alarm of the check or a property the change broke.
patch="$1"; shift
cd /repo || exit 2
if ! git diff --quiet; then echo "repo dirty"; exit 2; fi
git apply "$patch" || { echo "patch does not apply"; exit 2; }
(cd /verif/harness && cargo build --offline --quiet 2>&1 | grep -E "^error" | head -3)
printf '%s\n' "$@" | xargs -P 3 -I{} sh -c 'out=$(cd /verif && bin/check {} 2>&1); rc=$?; echo "== {} rc=$rc $(echo "$out" | grep -E "^VIOLATION|TOOL-ERROR" | sed "s/.*# //" | sort | uniq -c | head -3 | tr "\n" ";")"'
git -C /repo checkout -- .
