//! C14: the compression helpers (compress / decompress / compress_all / decompress_all and the
//! async twins) for every codec, chunking and read schedule.  The upstream codec crates -- called
//! directly -- interpret the specification's uninterpreted Dec; gzip streams are also written to
//! disk so that the orchestrator can decode them with CPython's zlib.

use crate::streams::*;
use crate::util::*;
use futures::{AsyncReadExt, AsyncWriteExt};
use pmtiles2::util::{compress, compress_all, compress_async, decompress, decompress_all, decompress_async};
use serde_json::{json, Value};
use std::io::{Read, Write};

fn inputs(rng: &mut Rng, tier: &str) -> Vec<(String, Vec<u8>)> {
    let mut v: Vec<(String, Vec<u8>)> = vec![
        ("empty".into(), vec![]),
        ("one_byte".into(), vec![0x42]),
        ("zeros_1k".into(), vec![0; 1000]),
        ("text".into(), b"the quick brown fox jumps over the lazy dog ".repeat(40)),
        ("random_300".into(), rng.bytes(300)),
        ("random_70k".into(), rng.bytes(70_000)),
        ("zeros_200k".into(), vec![0; 200_000]),
    ];
    if let Ok(b) = std::fs::read("/repo/test/compress/data.json") {
        v.push(("data.json".into(), b));
    }
    let big = if tier == "thorough" { 9_000_000 } else { 2_500_000 };
    let mut m = rng.bytes(big / 2);
    m.extend(vec![7u8; big / 2]);
    v.push(("multi_megabyte".into(), m));
    // highly compressible and several megabytes long (expansion ratios far beyond deflate's 1032:1 for zstd and brotli)
    v.push(("zeros_beyond_3_mib".into(), {
        let mut z = vec![0u8; 3_400_001];
        z[1_700_000] = 1;
        z[3_400_000] = 2;
        z
    }));
    for n in 2..=6 {
        v.push((format!("small_{n}"), rng.bytes(n)));
    }
    v
}

/// every way to split n bytes into write calls (n <= 6 exhaustively), plus a few fixed chunk sizes
fn chunkings(n: usize, rng: &mut Rng, tier: &str) -> Vec<Vec<usize>> {
    let mut out: Vec<Vec<usize>> = vec![vec![n.max(1)]];
    if n == 0 {
        return vec![vec![], vec![0]];
    }
    let limit = if tier == "thorough" { 12 } else { 6 };
    if n <= limit {
        // all compositions of n
        for mask in 0..(1u32 << (n - 1)) {
            let mut parts = Vec::new();
            let mut cur = 1;
            for b in 0..(n - 1) {
                if mask >> b & 1 == 1 {
                    parts.push(cur);
                    cur = 1;
                } else {
                    cur += 1;
                }
            }
            parts.push(cur);
            out.push(parts);
        }
    } else {
        for c in [1usize, 2, 7, 4096, 65_537] {
            if c < n && n / c < 20_000 {
                out.push(vec![c]);
            }
        }
        for _ in 0..3 {
            out.push((0..4).map(|_| 1 + rng.below(n as u64 / 2 + 1) as usize).collect());
        }
    }
    out
}

fn split<'a>(data: &'a [u8], parts: &[usize]) -> Vec<&'a [u8]> {
    // parts are used round-robin until the data is exhausted
    let mut v = Vec::new();
    let mut pos = 0;
    let mut i = 0;
    if parts.is_empty() {
        return v;
    }
    while pos < data.len() {
        let l = parts[i % parts.len()].max(1).min(data.len() - pos);
        v.push(&data[pos..pos + l]);
        pos += l;
        i += 1;
    }
    if data.is_empty() && parts == [0] {
        v.push(&data[0..0]);
    }
    v
}

pub fn drive(seed: u64, tier: &str, workdir: &str, out: &mut Out) {
    let mut rng = Rng::new(seed ^ 0x434f4d50);
    let mut toks = Interner::default();
    let gz_dir = format!("{workdir}/gz");
    let _ = std::fs::create_dir_all(&gz_dir);
    let mut gz_n = 0usize;
    let mut cases = 0u64;
    for (name, data) in inputs(&mut rng, tier) {
        let in_tok = toks.tok(&data);
        for c in 0u8..=4 {
            // brotli at quality 11 needs ~20 s per megabyte in this profile: multi-megabyte inputs only in the thorough tier
            if c == 3 && data.len() > 400_000 && tier != "thorough" {
                continue;
            }
            let comp = comp_of(c);
            let mut obs: Vec<Value> = Vec::new();
            // one-shot helpers
            let r = guard(|| compress_all(comp, &data));
            let mut o = json!({"api": "compress_all", "res": res_tag(&r)});
            let mut streams: Vec<(String, Vec<u8>)> = Vec::new();
            if let Ok(Ok(z)) = r {
                streams.push(("compress_all".into(), z));
            }
            obs.push(std::mem::take(&mut o));
            // streaming writers: every chunking
            let chs = chunkings(data.len(), &mut rng, tier);
            for (ci, parts) in chs.iter().enumerate() {
                for api in ["compress", "compress_async"] {
                    if data.len() > 100_000 && ci > 2 {
                        continue;
                    }
                    let r: Result<std::io::Result<Vec<u8>>, String> = guard(|| {
                        let mut sink = Vec::new();
                        if api == "compress" {
                            {
                                let mut w = compress(comp, &mut sink)?;
                                for ch in split(&data, parts) {
                                    w.write_all(ch)?;
                                }
                                w.flush()?;
                            } // dropped: the documented way to finish the sync writer
                        } else {
                            let mut w = compress_async(comp, &mut sink)?;
                            block_on(async {
                                for ch in split(&data, parts) {
                                    w.write_all(ch).await?;
                                }
                                w.close().await
                            })?;
                        }
                        Ok(sink)
                    });
                    let mut o = json!({"api": api, "chunks": parts.iter().take(12).collect::<Vec<_>>(), "res": res_tag(&r)});
                    if let Ok(Ok(z)) = r {
                        streams.push((format!("{api}#{ci}"), z));
                    }
                    obs.push(std::mem::take(&mut o));
                }
            }
            // every emitted stream: upstream decoder, the library's own readers under read schedules
            let mut decs: Vec<Value> = Vec::new();
            for (si, (src, z)) in streams.iter().enumerate() {
                let mut d = json!({"src": src, "zlen": z.len().min(1 << 30)});
                d["up"] = match up_decompress(c, z) {
                    Ok(b) => json!({"res": "ok", "tok": toks.tok(&b)}),
                    Err(_) => json!({"res": "err", "tok": 0}),
                };
                let r = guard(|| decompress_all(comp, z));
                d["decompress_all"] = match r {
                    Ok(Ok(b)) => json!({"res": "ok", "tok": toks.tok(&b)}),
                    Ok(Err(_)) => json!({"res": "err", "tok": 0}),
                    Err(_) => json!({"res": "panic", "tok": 0}),
                };
                // streaming readers over a fragmenting stream (a few schedules; all streams for small data)
                if si < 3 || data.len() <= 6 {
                    for (sched, is_async) in [(vec![1usize], false), (vec![3, 1, 7], true), (vec![4096], false), (vec![2], true)] {
                        // byte-by-byte transfer of the multi-megabyte zeros input costs a minute and adds nothing the
                        // 2.5 MB input does not already cover
                        if name == "zeros_beyond_3_mib" && sched[0] < 3 {
                            continue;
                        }
                        let ctl = new_ctl();
                        ctl.lock().expect("ctl").sched = sched.clone();
                        if is_async {
                            ctl.lock().expect("ctl").pending = vec![1, 0];
                        }
                        let r: Result<std::io::Result<Vec<u8>>, String> = guard(|| {
                            let mut input = TStream::new(z.clone(), ctl.clone());
                            let mut outb = Vec::new();
                            if is_async {
                                let mut rd = decompress_async(comp, &mut input)?;
                                block_on(rd.read_to_end(&mut outb))?;
                            } else {
                                let mut rd = decompress(comp, &mut input)?;
                                // read with small, odd-sized buffers
                                let mut buf = [0u8; 5];
                                loop {
                                    let n = rd.read(&mut buf)?;
                                    if n == 0 {
                                        break;
                                    }
                                    outb.extend_from_slice(&buf[..n]);
                                }
                            }
                            Ok(outb)
                        });
                        let key = format!("{}{:?}", if is_async { "decompress_async" } else { "decompress" }, sched);
                        d[key] = match r {
                            Ok(Ok(b)) => json!({"res": "ok", "tok": toks.tok(&b)}),
                            Ok(Err(_)) => json!({"res": "err", "tok": 0}),
                            Err(_) => json!({"res": "panic", "tok": 0}),
                        };
                    }
                }
                if c == 2 && data.len() <= 300_000 && (si < 2 || data.len() <= 6) {
                    gz_n += 1;
                    std::fs::write(format!("{gz_dir}/{gz_n}.gz"), z).expect("write gz");
                    std::fs::write(format!("{gz_dir}/{gz_n}.in"), &data).expect("write in");
                    d["gz_n"] = json!(gz_n);
                }
                decs.push(d);
            }
            // the four factories must refuse Unknown
            let mut factories: Vec<Value> = Vec::new();
            if c == 0 {
                let mut sink = Vec::new();
                factories.push(json!({"api": "compress", "res": if compress(comp, &mut sink).is_err() { "err" } else { "ok" }}));
                let mut sink2 = Vec::new();
                factories.push(json!({"api": "compress_async", "res": if compress_async(comp, &mut sink2).is_err() { "err" } else { "ok" }}));
                let mut src = std::io::Cursor::new(data.clone());
                factories.push(json!({"api": "decompress", "res": if decompress(comp, &mut src).is_err() { "err" } else { "ok" }}));
                let mut src2 = futures::io::Cursor::new(data.clone());
                factories.push(json!({"api": "decompress_async", "res": if decompress_async(comp, &mut src2).is_err() { "err" } else { "ok" }}));
                factories.push(json!({"api": "decompress_all", "res": res_tag(&guard(|| decompress_all(comp, &data)))}));
            }
            cases += 1;
            out.emit(json!({"ev": "Comp", "input": name, "comp": c, "in_tok": in_tok, "in_len": data.len().min(1 << 30),
                            "writes": obs, "streams": decs, "factories": factories}));
        }
    }
    // the fixtures shipped with the repository
    if let Ok(plain) = std::fs::read("/repo/test/compress/data.json") {
        let want = toks.tok(&plain);
        for (c, ext) in [(2u8, "gz"), (3, "br"), (4, "zst")] {
            if let Ok(z) = std::fs::read(format!("/repo/test/compress/data.json.{ext}")) {
                let r = guard(|| decompress_all(comp_of(c), &z));
                let (res, tok) = match r {
                    Ok(Ok(b)) => ("ok", toks.tok(&b)),
                    Ok(Err(_)) => ("err", 0),
                    Err(_) => ("panic", 0),
                };
                out.emit(json!({"ev": "CompFixture", "comp": c, "res": res, "tok": tok, "want": want}));
            }
        }
    }
    println!("stat compression_cases={cases}");
    println!("stat gzip_streams_for_second_decoder={gz_n}");
}
