//! Drivers for the archive builder: edit histories (C04, C10, C19), bulk archives (C01, C02, C10)
//! and canonical output (C16).  A history is a list of `Op`s; `exec` runs it against the real
//! library (optionally in a child OS process) and returns raw observations; `emit` turns them
//! into trace events with interned tokens.

use crate::archive::*;
use crate::util::*;
use pmtiles2::util::tile_id;
use pmtiles2::PMTiles;
use serde_json::{json, Value};
use std::io::Cursor;

pub const LAST_VALID_ID: u64 = 0x5555_5555_5555_5554;

#[derive(Clone, Debug)]
pub enum Op {
    New { tt: u8, tc: u8, api: u8 }, // api 0 = sync value, 1 = async value
    Set(Settings),
    Add { id: u64, c: Vec<u8> },
    Bulk(Vec<(u64, Vec<u8>)>),
    Remove { id: u64 },
    Get { id: u64 },
    GetZxy { z: u8, x: u64, y: u64 },
    List,
    Count,
    Save,         // consumes the value, keeps the bytes
    Reopen { api: u8 },
    Observe,
    Reset,
}

/// raw observation of one op
#[derive(Clone, Debug)]
pub struct Obs {
    pub op: Op,
    pub res: &'static str,
    pub content: Option<Vec<u8>>,
    pub ids: Vec<u64>,
    pub n: u64,
    pub counts: Option<[u64; 6]>,
    pub file: Option<Vec<u8>>,
    pub observed: Option<ObservedRaw>,
}

#[derive(Clone, Debug)]
pub struct ObservedRaw {
    pub small: [u8; 6],
    pub degs: [f64; 6],
    pub meta: Vec<u8>,
}

enum Val {
    None,
    Sync(PMTiles<Cursor<Vec<u8>>>),
    Async(PMTiles<futures::io::Cursor<Vec<u8>>>),
}

fn tag_opt(r: &Result<std::io::Result<Option<Vec<u8>>>, String>) -> &'static str {
    match r {
        Ok(Ok(Some(_))) => "some",
        Ok(Ok(None)) => "none",
        Ok(Err(_)) => "err",
        Err(_) => "panic",
    }
}

fn observed_raw<R>(pm: &PMTiles<R>) -> ObservedRaw {
    ObservedRaw {
        small: [
            comp_code(pm.internal_compression),
            comp_code(pm.tile_compression),
            tt_code(pm.tile_type),
            pm.min_zoom,
            pm.max_zoom,
            pm.center_zoom,
        ],
        degs: [
            pm.min_longitude,
            pm.min_latitude,
            pm.max_longitude,
            pm.max_latitude,
            pm.center_longitude,
            pm.center_latitude,
        ],
        meta: canonical_meta(&Value::Object(pm.meta_data.clone())),
    }
}

/// Run a history against the real library.
pub fn exec(ops: &[Op], with_counts: bool) -> Vec<Obs> {
    let mut val = Val::None;
    let mut last_bytes: Option<Vec<u8>> = None;
    let mut out = Vec::with_capacity(ops.len());
    macro_rules! on {
        ($v:ident, $sync:expr, $asyn:expr, $none:expr) => {
            match &mut val {
                Val::Sync($v) => $sync,
                Val::Async($v) => $asyn,
                Val::None => $none,
            }
        };
    }
    for op in ops {
        let mut o = Obs { op: op.clone(), res: "ok", content: None, ids: vec![], n: 0, counts: None, file: None, observed: None };
        match op {
            Op::New { tt, tc, api } => {
                if *api == 0 {
                    let mut p = PMTiles::<Cursor<Vec<u8>>>::default();
                    p.tile_type = tt_of(*tt);
                    p.tile_compression = comp_of(*tc);
                    val = Val::Sync(p);
                } else {
                    let mut p = PMTiles::<futures::io::Cursor<Vec<u8>>>::default();
                    p.tile_type = tt_of(*tt);
                    p.tile_compression = comp_of(*tc);
                    val = Val::Async(p);
                }
            }
            Op::Set(s) => on!(p, s.apply(p), s.apply(p), ()),
            Op::Add { id, c } => {
                let r = on!(p, guard(|| p.add_tile(*id, c.clone())), guard(|| p.add_tile(*id, c.clone())), Ok(Ok(())));
                o.res = res_tag(&r);
                if c.is_empty() {
                    // a refused add must change nothing: observe the count and the tile it was aimed at
                    o.n = on!(p, p.num_tiles() as u64, p.num_tiles() as u64, 0);
                    let g = on!(p, guard(|| p.get_tile_by_id(*id)), guard(|| block_on(p.get_tile_by_id_async(*id))), Ok(Ok(None)));
                    o.ids = vec![match tag_opt(&g) { "some" => 1, "none" => 0, _ => 2 }];
                    if let Ok(Ok(Some(b))) = g {
                        o.content = Some(b);
                    }
                }
            }
            Op::Bulk(ts) => {
                for (id, c) in ts {
                    let r = on!(p, guard(|| p.add_tile(*id, c.clone())), guard(|| p.add_tile(*id, c.clone())), Ok(Ok(())));
                    if res_tag(&r) != "ok" {
                        o.res = res_tag(&r);
                    }
                }
            }
            Op::Remove { id } => {
                let r = on!(p, guard(|| p.remove_tile(*id)), guard(|| p.remove_tile(*id)), Ok(()));
                if r.is_err() {
                    o.res = "panic";
                }
            }
            Op::Get { id } => {
                let r = on!(p, guard(|| p.get_tile_by_id(*id)), guard(|| block_on(p.get_tile_by_id_async(*id))), Ok(Ok(None)));
                o.res = tag_opt(&r);
                if let Ok(Ok(Some(b))) = r {
                    o.content = Some(b);
                }
            }
            Op::GetZxy { z, x, y } => {
                let r = on!(p, guard(|| p.get_tile(*x, *y, *z)), guard(|| block_on(p.get_tile_async(*x, *y, *z))), Ok(Ok(None)));
                o.res = tag_opt(&r);
                if let Ok(Ok(Some(b))) = r {
                    o.content = Some(b);
                }
            }
            Op::List => {
                o.ids = on!(p, p.tile_ids().into_iter().copied().collect(), p.tile_ids().into_iter().copied().collect(), vec![]);
            }
            Op::Count => {
                o.n = on!(p, p.num_tiles() as u64, p.num_tiles() as u64, 0);
            }
            Op::Save => {
                let v = std::mem::replace(&mut val, Val::None);
                let r = match v {
                    Val::Sync(p) => guard(move || {
                        let mut cur = Cursor::new(Vec::new());
                        p.to_writer(&mut cur).map(|()| cur.into_inner())
                    }),
                    Val::Async(p) => guard(move || {
                        let mut cur = futures::io::Cursor::new(Vec::new());
                        block_on(p.to_async_writer(&mut cur)).map(|()| cur.into_inner())
                    }),
                    Val::None => Ok(Err(std::io::Error::new(std::io::ErrorKind::Other, "no value"))),
                };
                o.res = res_tag(&r);
                if let Ok(Ok(b)) = r {
                    last_bytes = Some(b.clone());
                    o.file = Some(b);
                } else {
                    last_bytes = None;
                }
            }
            Op::Reopen { api } => match &last_bytes {
                None => o.res = "nofile",
                Some(b) => {
                    if *api == 0 {
                        match guard(|| PMTiles::from_reader(Cursor::new(b.clone()))) {
                            Ok(Ok(p)) => val = Val::Sync(p),
                            Ok(Err(_)) => o.res = "err",
                            Err(_) => o.res = "panic",
                        }
                    } else {
                        match guard(|| block_on(PMTiles::from_async_reader(futures::io::Cursor::new(b.clone())))) {
                            Ok(Ok(p)) => val = Val::Async(p),
                            Ok(Err(_)) => o.res = "err",
                            Err(_) => o.res = "panic",
                        }
                    }
                }
            },
            Op::Observe => {
                o.observed = on!(p, Some(observed_raw(p)), Some(observed_raw(p)), None);
            }
            Op::Reset => {
                val = Val::None;
            }
        }
        if with_counts && matches!(op, Op::Add { .. } | Op::Remove { .. }) {
            o.counts = on!(p, Some(p.verif_counts()), Some(p.verif_counts()), None);
        }
        out.push(o);
    }
    out
}

pub struct Emitter {
    pub toks: Interner,
    pub metas: Interner,
    pub files: Interner,
    pub api_of_value: u8,
    /// when set, Reset events are not advertised as safe cut points for parallel validation
    pub no_cut: bool,
    /// do not dissect saved files (very large archives)
    pub light: bool,
}

impl Emitter {
    pub fn new() -> Self {
        let mut metas = Interner::default();
        // token 1 = "{}" so that DefaultCfg.meta in the spec can name it... the spec uses the logged token
        metas.tok(b"{}");
        Emitter { toks: Interner::default(), metas, files: Interner::default(), api_of_value: 0, no_cut: false, light: false }
    }

    pub fn emit(&mut self, obs: &[Obs], out: &mut Out) {
        for o in obs {
            let ev = match &o.op {
                Op::New { tt, tc, api } => {
                    self.api_of_value = *api;
                    json!({"ev": "New", "tt": tt, "tc": tc, "api": api})
                }
                Op::Set(s) => json!({"ev": "Set", "cfg": s.cfg_json(&mut self.metas)}),
                Op::Add { id, c } => {
                    let mut e = json!({"ev": "Add", "id": limbs(*id), "tok": if c.is_empty() {0} else {self.toks.tok(c)}, "len": c.len(), "res": o.res});
                    if let Some(cn) = o.counts {
                        e["counts"] = json!(cn.to_vec());
                    }
                    if c.is_empty() {
                        e["after_n"] = json!(o.n);
                        e["after_res"] = json!(["none", "some", "err"][o.ids.first().copied().unwrap_or(2) as usize]);
                        e["after_tok"] = json!(o.content.as_ref().map_or(0, |b| self.toks.tok(b)));
                    }
                    e
                }
                Op::Bulk(ts) => {
                    let tiles: Vec<Value> = ts.iter().map(|(id, c)| json!({"id": limbs(*id), "tok": self.toks.tok(c)})).collect();
                    json!({"ev": "Bulk", "tiles": tiles, "res": o.res})
                }
                Op::Remove { id } => {
                    let mut e = json!({"ev": "Remove", "id": limbs(*id), "res": o.res});
                    if let Some(cn) = o.counts {
                        e["counts"] = json!(cn.to_vec());
                    }
                    e
                }
                Op::Get { id } => {
                    json!({"ev": "Get", "id": limbs(*id), "res": o.res, "tok": o.content.as_ref().map_or(0, |c| self.toks.tok(c))})
                }
                Op::GetZxy { z, x, y } => {
                    json!({"ev": "GetZxy", "z": z, "x": limbs(*x), "y": limbs(*y), "res": o.res,
                           "tok": o.content.as_ref().map_or(0, |c| self.toks.tok(c))})
                }
                Op::List => json!({"ev": "List", "ids": o.ids.iter().map(|i| limbs(*i)).collect::<Vec<_>>()}),
                Op::Count => json!({"ev": "Count", "n": o.n}),
                Op::Save => {
                    let mut e = json!({"ev": "Save", "api": self.api_of_value, "res": o.res});
                    if let Some(b) = &o.file {
                        e["ftok"] = json!(self.files.tok(b));
                        if self.light {
                            // very large archive in the quick tier: the file itself is not dissected (its re-opening is judged)
                            e["light"] = json!(true);
                        } else {
                            e["file"] = Dissector { toks: &mut self.toks, metas: &mut self.metas }.dissect(b);
                        }
                    }
                    e
                }
                Op::Reopen { api } => {
                    self.api_of_value = *api;
                    json!({"ev": "Reopen", "api": api, "res": o.res})
                }
                Op::Observe => match &o.observed {
                    None => continue,
                    Some(r) => {
                        let mut ok = true;
                        let coords: Vec<i64> = r
                            .degs
                            .iter()
                            .map(|d| {
                                let g = (d * 1e7).round();
                                if (g / 1e7 - d).abs() <= 2.0 * f64::EPSILON * d.abs() && g.abs() <= 2_147_483_648.0 {
                                    g as i64
                                } else {
                                    ok = false;
                                    0
                                }
                            })
                            .collect();
                        json!({"ev": "Observe", "obs": {"ic": r.small[0], "tc": r.small[1], "tt": r.small[2],
                               "minz": r.small[3], "maxz": r.small[4], "cz": r.small[5], "coords": coords,
                               "coords_e7": ok, "meta": self.metas.tok(&r.meta)}})
                    }
                },
                Op::Reset => json!({"ev": "Reset", "cut": !self.no_cut}),
            };
            out.emit(ev);
        }
    }
}

// ------------------------------------------------------------------------------------------
fn content_alphabet(rng: &mut Rng, n: usize) -> Vec<Vec<u8>> {
    // colliding contents: equal length, shared prefixes, one a prefix of another, a few larger ones
    // two large contents first (they survive the truncation below): > 16 KiB and > 64 KiB
    let mut v: Vec<Vec<u8>> = vec![rng.bytes(20_000), vec![1], vec![2], rng.bytes(70_001), vec![1, 1], vec![1, 2], vec![1, 1, 1], vec![0], vec![0, 0]];
    let base = rng.bytes(64);
    let mut near = base.clone();
    near[63] ^= 1;
    v.push(base.clone());
    v.push(near);
    v.push(base[..63].to_vec());
    v.push(rng.bytes(1000));
    v.push(rng.bytes(4097));
    while v.len() < n {
        let l = 1 + rng.below(200) as usize;
        v.push(rng.bytes(l));
    }
    v.truncate(n.max(3));
    v
}

fn id_alphabet(rng: &mut Rng, n: usize) -> Vec<u64> {
    let mut v = vec![0u64, 1, 2, 3, 4, 5];
    let b = tile_id(12, 1000, 1000);
    v.extend([b, b + 1, b + 2, b + 3]);
    v.extend([LAST_VALID_ID, LAST_VALID_ID - 1, LAST_VALID_ID - 2]);
    let z = tile_id(20, 5, 7);
    v.extend([z, z + 1]);
    while v.len() < n {
        v.push(rng.below(LAST_VALID_ID));
    }
    v.truncate(n.max(3));
    v
}

/// steered histories: reader-backed tiles that share one stored content (runs and deduplicated pairs),
/// edited in between, then saved and reopened -- the interleavings of in-memory and backed tiles
fn steered_histories(rng: &mut Rng) -> Vec<Vec<Op>> {
    let mut hs = Vec::new();
    let x = vec![5u8; 9];
    let y = vec![6u8; 9];
    let z = rng.bytes(30);
    for variant in 0..8u8 {
        for api in [0u8, 1] {
            let base: Vec<(u64, Vec<u8>)> = vec![(1, x.clone()), (2, x.clone()), (3, x.clone()), (10, y.clone()), (20, y.clone()), (21, z.clone()), (30, x.clone())];
            let mut ops = vec![Op::New { tt: 1, tc: 1, api }, Op::Set(Settings::random(rng, 1 + (variant % 4))), Op::Bulk(base.clone()), Op::Save, Op::Reopen { api }];
            match variant {
                0 => ops.push(Op::Add { id: 2, c: z.clone() }),                       // replace the middle of a backed run
                1 => ops.push(Op::Add { id: 15, c: z.clone() }),                      // new tile between a deduplicated pair
                2 => ops.extend([Op::Remove { id: 2 }, Op::Add { id: 2, c: x.clone() }]), // same content back in memory
                3 => ops.extend([Op::Add { id: 0, c: y.clone() }, Op::Add { id: 11, c: y.clone() }]), // in-memory twins of backed content
                4 => ops.extend([Op::Get { id: 1 }, Op::Get { id: 2 }, Op::Remove { id: 1 }]),  // lookups, then drop one of a run
                5 => ops.extend([Op::Add { id: 3, c: x.clone() }, Op::Add { id: 3, c: x.clone() }]), // re-add identical bytes twice
                6 => ops.extend([Op::Get { id: 10 }, Op::Add { id: 40, c: y.clone() }, Op::Remove { id: 40 }]),
                _ => ops.extend([Op::Add { id: 4, c: x.clone() }, Op::Remove { id: 3 }, Op::Add { id: 25, c: z.clone() }]),
            }
            ops.extend([Op::Count, Op::List]);
            for id in [0u64, 1, 2, 3, 4, 10, 11, 15, 20, 21, 25, 30, 40] {
                ops.push(Op::Get { id });
            }
            ops.extend([Op::Save, Op::Reopen { api: 1 - api }, Op::Count, Op::List]);
            for id in [0u64, 1, 2, 3, 4, 10, 11, 15, 20, 21, 25, 30, 40] {
                ops.push(Op::Get { id });
            }
            ops.extend([Op::Save, Op::Reset]);
            hs.push(ops);
        }
    }
    hs
}

/// C04 / C10 (retention) / C19 (empty add): long random histories over small alphabets
/// thorough tier of C04 only: one content under 130 003 consecutive IDs (a single directory entry with a six-digit run
/// length), a different tile before and after it; saved, reopened through the other API, counted, looked up around every
/// power of two and at both ends.  (TLC expands the run quadratically: about a quarter of an hour.)
pub fn drive_longrun(seed: u64, out: &mut Out) {
    let mut rng = Rng::new(seed ^ 0x4c52);
    let mut em = Emitter::new();
    let run = 130_003u64;
    let c = vec![0x5A; 33];
    let mut tiles: Vec<(u64, Vec<u8>)> = vec![(2, vec![1, 2, 3, 4])];
    tiles.extend((0..run).map(|i| (1000 + i, c.clone())));
    tiles.push((1000 + run, vec![9, 9]));
    let api = (seed % 2) as u8;
    let mut set = Settings::random(&mut rng, 2);
    set.ic = 2;
    let mut ops = vec![Op::New { tt: set.tt, tc: set.tc, api }, Op::Set(set), Op::Bulk(tiles), Op::Save, Op::Reopen { api: 1 - api }, Op::Count];
    let mut probes: Vec<u64> = vec![2, 999, 1000, 1001, 1000 + run - 2, 1000 + run - 1, 1000 + run, 1000 + run + 1];
    for k in 10..17 {
        probes.extend([1000 + (1u64 << k) - 1, 1000 + (1u64 << k)]);
    }
    for t in [100_000u64, 110_000, 120_000, 125_000] {
        probes.extend([1000 + t - 1, 1000 + t, 1000 + t + 1]);
    }
    for id in probes {
        ops.push(Op::Get { id });
    }
    ops.push(Op::Reset);
    em.emit(&exec(&ops, false), out);
}

pub fn drive_history(seed: u64, tier: &str, out: &mut Out) {
    let mut rng = Rng::new(seed ^ 0x5354);
    let (segments, ops_per) = if tier == "thorough" { (40, 3000) } else { (14, 700) };
    let mut em = Emitter::new();
    for ops in steered_histories(&mut rng) {
        em.emit(&exec(&ops, true), out);
    }
    for s in 0..segments {
        let na = 8 + rng.below(12) as usize;
        let ids = id_alphabet(&mut rng, na);
        let nc = 5 + rng.below(8) as usize;
        let cs = content_alphabet(&mut rng, nc);
        let mut ops = vec![Op::New { tt: rng.below(6) as u8, tc: rng.below(5) as u8, api: (s % 2) as u8 }];
        let ic0 = 1 + rng.below(4) as u8;
        let mut set = Settings::random(&mut rng, ic0);
        ops.push(Op::Set(set.clone()));
        let mut since_save = 0;
        for _ in 0..ops_per {
            since_save += 1;
            let id = *rng.pick(&ids);
            match rng.below(100) {
                0..=34 => ops.push(Op::Add { id, c: rng.pick(&cs).clone() }),
                35..=38 => ops.push(Op::Add { id, c: vec![] }),
                39..=58 => ops.push(Op::Remove { id }),
                59..=78 => ops.push(Op::Get { id }),
                79..=82 => ops.push(Op::Get { id: id.wrapping_add(1) }),
                83..=88 => ops.push(Op::List),
                89..=94 => ops.push(Op::Count),
                95..=96 => {
                    let ic1 = 1 + rng.below(4) as u8;
                    set = Settings::random(&mut rng, ic1);
                    ops.push(Op::Set(set.clone()));
                }
                _ => {
                    if since_save > 60 {
                        since_save = 0;
                        ops.push(Op::List);
                        ops.push(Op::Save);
                        ops.push(Op::Reopen { api: rng.below(2) as u8 });
                        ops.push(Op::Count);
                        ops.push(Op::List);
                        for id in &ids {
                            ops.push(Op::Get { id: *id });
                        }
                    }
                }
            }
        }
        ops.push(Op::Save);
        ops.push(Op::Reset);
        let obs = exec(&ops, true);
        em.emit(&obs, out);
    }
}

fn scatter_ids(rng: &mut Rng, n: usize, style: u64) -> Vec<u64> {
    let mut set = std::collections::BTreeSet::new();
    match style % 4 {
        0 => {
            // clustered at low zooms: a dense prefix
            let start = rng.below(50);
            for i in 0..n as u64 {
                set.insert(start + i);
            }
        }
        1 => {
            // runs with gaps
            let mut id = rng.below(1000);
            while set.len() < n {
                let run = 1 + rng.below(40);
                for k in 0..run {
                    if set.len() < n {
                        set.insert(id + k);
                    }
                }
                id += run + rng.below(5) * rng.below(1000);
            }
        }
        2 => {
            // scattered over the whole valid domain, including the last valid ID
            set.insert(LAST_VALID_ID);
            set.insert(0);
            while set.len() < n {
                set.insert(rng.below(LAST_VALID_ID + 1));
            }
        }
        _ => {
            let mut id = tile_id(14, 100, 100);
            while set.len() < n {
                id += 1 + (rng.below(8) == 0) as u64 * rng.below(1 << 20);
                set.insert(id);
            }
            while set.len() > n {
                let last = *set.iter().next_back().expect("nonempty");
                set.remove(&last);
            }
        }
    }
    set.into_iter().take(n).collect()
}

/// contents with exact duplicates (adjacent and far), near-duplicates, alternating patterns
fn assign_contents(rng: &mut Rng, ids: &[u64], max_len: usize, pattern: u64) -> Vec<(u64, Vec<u8>)> {
    let pool: Vec<Vec<u8>> = (0..(3 + ids.len() / 3))
        .map(|i| {
            let l = match i % 7 {
                0 => 1,
                1 => 2,
                6 => 1 + rng.below(max_len as u64) as usize,
                _ => 1 + rng.below(64.min(max_len as u64)) as usize,
            };
            rng.bytes(l)
        })
        .collect();
    let mut out = Vec::with_capacity(ids.len());
    let mut prev: Option<Vec<u8>> = None;
    for (i, id) in ids.iter().enumerate() {
        let c = match pattern % 5 {
            0 => rng.pick(&pool).clone(),                                      // random duplicates
            1 => pool[(i / 7) % pool.len()].clone(),                           // runs of 7
            2 => pool[i % 2].clone(),                                          // A/B/A/B
            3 => {
                // mostly unique, with duplicates of the previous
                if rng.chance(1, 3) && prev.is_some() {
                    prev.clone().expect("prev")
                } else {
                    let mut c = id.to_le_bytes().to_vec();
                    let extra = rng.below(max_len.min(300) as u64) as usize;
                    c.extend(rng.bytes(extra));
                    c
                }
            }
            _ => {
                // near-duplicates: same length and prefix, last byte differs
                let mut c = pool[0].clone();
                c.push((i % 3) as u8);
                c
            }
        };
        prev = Some(c.clone());
        out.push((*id, c));
    }
    out
}

/// C01 / C02 / C10 (archive level) / C16 (rewrite idempotence): bulk archives
pub fn drive_bulk(seed: u64, tier: &str, out: &mut Out) {
    let mut rng = Rng::new(seed ^ 0x42554c4b);
    let sizes: Vec<usize> = if tier == "thorough" {
        vec![0, 1, 2, 3, 5, 9, 50, 51, 500, 700, 2000, 5000, 9000, 20000, 70000, 0, 1, 7, 120, 1200]
    } else {
        vec![0, 1, 2, 5, 50, 500, 5000, 3, 17, 200, 1500]
    };
    let reps = if tier == "thorough" { 3 } else { 2 };
    let mut em = Emitter::new();
    // identical contents at IDs whose distance is a multiple of 2^32 plus the run length so far: never one run
    {
        let x = vec![7u8, 7, 7];
        let y = vec![8u8; 40];
        let b = 5u64 << 32;
        let tiles: Vec<(u64, Vec<u8>)> = vec![
            (0, x.clone()), ((1 << 32) + 1, x.clone()), (b + 7, y.clone()), (b + 8, y.clone()), (b + 9, y.clone()),
            (b + (1 << 32) + 10, y.clone()), ((9 << 32) + 2, x.clone()), ((11 << 32) + 3, x.clone()), ((11 << 32) + 4, x),
        ];
        for api in [0u8, 1] {
            let set = Settings::random(&mut rng, 1 + api);
            let mut ops = vec![Op::New { tt: set.tt, tc: set.tc, api }, Op::Set(set), Op::Bulk(tiles.clone()), Op::Save, Op::Reopen { api }, Op::Count, Op::List];
            for (id, _) in &tiles {
                ops.push(Op::Get { id: *id });
                ops.push(Op::Get { id: id + 1 });
            }
            ops.push(Op::Save);
            ops.push(Op::Reset);
            em.emit(&exec(&ops, false), out);
        }
    }
    // a spectrum of tile sizes up to megabytes (sizes around powers of two and odd ones in between): written, reopened
    // through the other API, every tile looked up, and the reader-backed archive written again
    {
        let lens = [255usize, 256, 4095, 4097, 16_385, 40_961, 65_535, 65_537, 100_159, 262_145, 531_441, 1_048_577, 2_500_001];
        let tiles: Vec<(u64, Vec<u8>)> = lens
            .iter()
            .enumerate()
            .map(|(i, l)| {
                let mut c = rng.bytes(64);
                c.resize(*l, (i as u8).wrapping_mul(37));
                let n = c.len();
                c[n - 1] = 0xE0 | i as u8; // the last byte tells a truncated copy from the whole
                (3 + 5 * i as u64, c)
            })
            .collect();
        for api in [0u8, 1] {
            let mut set = Settings::random(&mut rng, 1 + api);
            set.tc = 1;
            let mut ops = vec![Op::New { tt: set.tt, tc: set.tc, api }, Op::Set(set), Op::Bulk(tiles.clone()), Op::Save, Op::Reopen { api: 1 - api }, Op::Count, Op::List];
            for (id, _) in &tiles {
                ops.push(Op::Get { id: *id });
            }
            ops.push(Op::Save);
            ops.push(Op::Reopen { api });
            for (id, _) in &tiles {
                ops.push(Op::Get { id: *id });
            }
            ops.push(Op::Reset);
            em.emit(&exec(&ops, false), out);
        }
        println!("stat bulk_tiles_beyond_one_megabyte=2");
    }
    // one content under 5 003 consecutive IDs (a single directory entry with a long run), a different tile
    // before and after it.  (TLC expands runs quadratically: 20 000 cost a minute, 130 000 a quarter of an hour per validation -- see DESIGN 0.8, T4_1.)
    {
        let run = 5_003u64;
        let c = vec![0x5A; 33];
        let mut tiles: Vec<(u64, Vec<u8>)> = vec![(2, vec![1, 2, 3, 4])];
        tiles.extend((0..run).map(|i| (1000 + i, c.clone())));
        tiles.push((1000 + run, vec![9, 9]));
        let api = (seed % 2) as u8;
        let mut set = Settings::random(&mut rng, 2);
        set.ic = 2;
        let mut ops = vec![Op::New { tt: set.tt, tc: set.tc, api }, Op::Set(set), Op::Bulk(tiles.clone()), Op::Save, Op::Reopen { api: 1 - api }, Op::Count];
        for id in [2u64, 999, 1000, 1001, 1000 + 4_095, 1000 + 4_096, 1000 + run - 2, 1000 + run - 1, 1000 + run, 1000 + run + 1] {
            ops.push(Op::Get { id });
        }
        ops.push(Op::Save);
        ops.push(Op::Reset);
        em.emit(&exec(&ops, false), out);
    }
    let mut k = 0u64;
    for rep in 0..reps {
        for &n in &sizes {
            k += 1;
            let big = n >= 2000;
            if big && rep > 0 {
                continue;
            }
            let ic = 1 + (k % 4) as u8;
            let ids = scatter_ids(&mut rng, n, k);
            let max_len = if n <= 50 { 100 * 1024 } else if big { 48 } else { 3000 };
            let pattern = if big { 3 } else { k / 4 };
            let tiles = assign_contents(&mut rng, &ids, max_len, pattern);
            let api = (k % 2) as u8;
            let set = Settings::random(&mut rng, ic);
            let mut ops = vec![Op::New { tt: set.tt, tc: set.tc, api }, Op::Set(set), Op::Bulk(tiles.clone()), Op::Count];
            if !big {
                ops.push(Op::List);
                // detours that leave the logical content unchanged: identical re-add, replace and restore
                for _ in 0..tiles.len().min(6) {
                    let (id, c) = rng.pick(&tiles).clone();
                    if rng.chance(1, 2) {
                        ops.push(Op::Add { id, c });
                    } else {
                        ops.push(Op::Add { id, c: vec![0xEE, 0xEE] });
                        ops.push(Op::Add { id, c });
                    }
                }
            }
            ops.push(Op::Save);
            // reopen with the same API so that the rewrite below is comparable byte for byte (C16)
            ops.push(Op::Reopen { api: if k % 3 == 0 { 1 - api } else { api } });
            ops.push(Op::Observe);
            ops.push(Op::Count);
            ops.push(Op::List);
            let sample: Vec<u64> = if n <= 600 {
                ids.clone()
            } else {
                (0..300).map(|_| *rng.pick(&ids)).collect()
            };
            for id in &sample {
                ops.push(Op::Get { id: *id });
            }
            for id in sample.iter().take(40) {
                ops.push(Op::Get { id: id.wrapping_add(1) });
                ops.push(Op::Get { id: id.wrapping_sub(1) });
            }
            for _ in 0..20 {
                ops.push(Op::Get { id: rng.next() });
            }
            for id in sample.iter().take(25) {
                if let Ok((z, x, y)) = pmtiles2::util::zxy(*id) {
                    ops.push(Op::GetZxy { z, x, y });
                }
            }
            // writing the archive that was just read back (C16: same bytes); through the API of the first save
            if k % 3 == 0 {
                ops.push(Op::Save);
                ops.push(Op::Reopen { api });
            }
            ops.push(Op::Save);
            ops.push(Op::Reset);
            let obs = exec(&ops, false);
            em.emit(&obs, out);
        }
    }
}

// ------------------------------------------------------------------------------------------
// C16: canonical output across histories and processes

fn op_to_json(op: &Op) -> Value {
    match op {
        Op::New { tt, tc, api } => json!({"op": "new", "tt": tt, "tc": tc, "api": api}),
        Op::Set(s) => json!({"op": "set", "small": [s.ic, s.tc, s.tt, s.minz, s.maxz, s.cz],
                             "coords": s.coords.iter().map(|d| d.to_bits()).collect::<Vec<u64>>(),
                             "meta": Value::Object(s.meta.clone())}),
        Op::Add { id, c } => json!({"op": "add", "id": id, "c": c}),
        Op::Bulk(ts) => json!({"op": "bulk", "tiles": ts.iter().map(|(i, c)| json!([i, c])).collect::<Vec<_>>()}),
        Op::Remove { id } => json!({"op": "remove", "id": id}),
        Op::Get { id } => json!({"op": "get", "id": id}),
        Op::GetZxy { z, x, y } => json!({"op": "getzxy", "z": z, "x": x, "y": y}),
        Op::List => json!({"op": "list"}),
        Op::Count => json!({"op": "count"}),
        Op::Save => json!({"op": "save"}),
        Op::Reopen { api } => json!({"op": "reopen", "api": api}),
        Op::Observe => json!({"op": "observe"}),
        Op::Reset => json!({"op": "reset"}),
    }
}

fn bytes_of(v: &Value) -> Vec<u8> {
    v.as_array().expect("bytes").iter().map(|x| x.as_u64().expect("byte") as u8).collect()
}

fn op_from_json(v: &Value) -> Op {
    let g = |k: &str| v[k].as_u64().expect("u64 field");
    match v["op"].as_str().expect("op") {
        "new" => Op::New { tt: g("tt") as u8, tc: g("tc") as u8, api: g("api") as u8 },
        "set" => {
            let sm: Vec<u8> = bytes_of(&v["small"]);
            let mut coords = [0f64; 6];
            for (i, c) in v["coords"].as_array().expect("coords").iter().enumerate() {
                coords[i] = f64::from_bits(c.as_u64().expect("bits"));
            }
            Op::Set(Settings { ic: sm[0], tc: sm[1], tt: sm[2], minz: sm[3], maxz: sm[4], cz: sm[5], coords,
                               meta: v["meta"].as_object().expect("meta").clone() })
        }
        "add" => Op::Add { id: g("id"), c: bytes_of(&v["c"]) },
        "bulk" => Op::Bulk(v["tiles"].as_array().expect("tiles").iter().map(|t| (t[0].as_u64().expect("id"), bytes_of(&t[1]))).collect()),
        "remove" => Op::Remove { id: g("id") },
        "get" => Op::Get { id: g("id") },
        "getzxy" => Op::GetZxy { z: g("z") as u8, x: g("x"), y: g("y") },
        "list" => Op::List,
        "count" => Op::Count,
        "save" => Op::Save,
        "reopen" => Op::Reopen { api: g("api") as u8 },
        "observe" => Op::Observe,
        _ => Op::Reset,
    }
}

/// child process entry: read ops JSON, run, write the bytes of every successful save
pub fn save_child(ops_path: &str, out_path: &str) {
    let v: Value = serde_json::from_slice(&std::fs::read(ops_path).expect("ops file")).expect("ops json");
    let ops: Vec<Op> = v.as_array().expect("ops").iter().map(op_from_json).collect();
    let obs = exec(&ops, false);
    let saves: Vec<Value> = obs
        .iter()
        .map(|o| json!({"res": o.res, "file": o.file.as_ref().map(|b| bytes_json(b))}))
        .collect();
    std::fs::write(out_path, serde_json::to_vec(&saves).expect("ser")).expect("write child result");
}

/// Run a history in a fresh OS process (fresh hash seeds, fresh allocator state).
fn exec_in_child(ops: &[Op], workdir: &str, n: usize) -> Option<Vec<Obs>> {
    let ops_path = format!("{workdir}/child_ops_{n}.json");
    let out_path = format!("{workdir}/child_out_{n}.json");
    std::fs::write(&ops_path, serde_json::to_vec(&Value::Array(ops.iter().map(op_to_json).collect())).ok()?).ok()?;
    let exe = std::env::current_exe().ok()?;
    let st = std::process::Command::new(exe).args(["save-child", &ops_path, &out_path]).status().ok()?;
    let mut obs: Vec<Obs> = ops
        .iter()
        .map(|op| Obs { op: op.clone(), res: "ok", content: None, ids: vec![], n: 0, counts: None, file: None, observed: None })
        .collect();
    if !st.success() {
        for o in obs.iter_mut() {
            if matches!(o.op, Op::Save) {
                o.res = "panic";
            }
        }
    } else {
        let res: Value = serde_json::from_slice(&std::fs::read(&out_path).ok()?).ok()?;
        for (o, r) in obs.iter_mut().zip(res.as_array()?.iter()) {
            o.res = match r["res"].as_str()? {
                "ok" => "ok",
                "err" => "err",
                "some" => "some",
                "none" => "none",
                "nofile" => "nofile",
                _ => "panic",
            };
            if !r["file"].is_null() {
                o.file = Some(bytes_of(&r["file"]));
            }
        }
    }
    let _ = std::fs::remove_file(&ops_path);
    let _ = std::fs::remove_file(&out_path);
    Some(obs)
}

/// histories that all reach the logical state (tiles, set): different orders, detours, reopen
fn history_variants(rng: &mut Rng, tiles: &[(u64, Vec<u8>)], set: &Settings, variants: usize) -> Vec<Vec<Op>> {
    let mut hs = Vec::new();
    for v in 0..variants {
        let mut order: Vec<usize> = (0..tiles.len()).collect();
        match v % 4 {
            0 => {}
            1 => order.reverse(),
            _ => {
                for i in (1..order.len()).rev() {
                    order.swap(i, rng.below(i as u64 + 1) as usize);
                }
            }
        }
        let mut ops = vec![Op::New { tt: set.tt, tc: set.tc, api: ((v / 2) % 2) as u8 }];
        // settings first or last
        if v % 3 == 0 {
            ops.push(Op::Set(set.clone()));
        }
        let mid = order.len() / 2;
        for (k, &i) in order.iter().enumerate() {
            let (id, c) = &tiles[i];
            if v >= 2 && rng.chance(1, 4) {
                // detour: wrong content first, or an unrelated tile that is removed again
                if rng.chance(1, 2) {
                    let mut wrong = c.clone();
                    wrong.push(7);
                    ops.push(Op::Add { id: *id, c: wrong });
                } else {
                    let extra = id.wrapping_add(1_000_003) % LAST_VALID_ID;
                    if !tiles.iter().any(|(i2, _)| *i2 == extra) {
                        ops.push(Op::Add { id: extra, c: c.clone() });
                        ops.push(Op::Remove { id: extra });
                    }
                }
            }
            if v >= 2 && rng.chance(1, 8) {
                ops.push(Op::Remove { id: *id });
            }
            ops.push(Op::Add { id: *id, c: c.clone() });
            if v >= 1 && rng.chance(1, 6) {
                // adding the identical bytes once more changes nothing
                ops.push(Op::Add { id: *id, c: c.clone() });
            }
            if v % 4 == 3 && k == mid {
                // save + reopen in the middle: first half becomes reader-backed
                ops.push(Op::Set(set.clone()));
                ops.push(Op::Save);
                ops.push(Op::Reopen { api: ((v / 2) % 2) as u8 });
            }
        }
        if v % 3 != 0 {
            ops.push(Op::Set(set.clone()));
        }
        ops.push(Op::Save);
        ops.push(Op::Reset);
        hs.push(ops);
    }
    hs
}

pub fn drive_canon(seed: u64, tier: &str, workdir: &str, out: &mut Out) {
    let mut rng = Rng::new(seed ^ 0x43414e);
    let (targets, variants) = if tier == "thorough" { (42, 6) } else { (16, 4) };
    let mut em = Emitter::new();
    let mut child_n = 0usize;
    for t in 0..targets {
        let n = match t % 6 {
            0 => 1 + rng.below(4) as usize,
            1 => 10 + rng.below(20) as usize,
            2 => 60,
            3 => 300,
            4 => {
                if tier == "thorough" {
                    2000
                } else {
                    1200
                }
            }
            _ => 0,
        };
        let ids = scatter_ids(&mut rng, n, t as u64);
        let tiles = assign_contents(&mut rng, &ids, 200, t as u64);
        let set = Settings::random(&mut rng, 1 + (t % 4) as u8);
        let hv = history_variants(&mut rng, &tiles, &set, variants);
        let nv = hv.len();
        for (v, ops) in hv.into_iter().enumerate() {
            em.no_cut = v + 1 < nv;
            // odd variants run in a separate OS process
            let obs = if v % 2 == 1 {
                child_n += 1;
                match exec_in_child(&ops, workdir, child_n) {
                    Some(o) => o,
                    None => exec(&ops, false),
                }
            } else {
                exec(&ops, false)
            };
            em.emit(&obs, out);
        }
    }
}
