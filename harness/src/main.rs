//! pmv: conformance harness between the TLA+ specification in /verif/spec and pmtiles2.
//! Subcommands write NDJSON traces that TLC validates (see /verif/DESIGN.md).

mod archive;
mod codec;
mod compress;
mod files;
mod hilbert;
mod malformed;
mod scen;
mod store;
mod streams;
mod twin;
mod util;

use util::Out;

fn arg<'a>(args: &'a [String], name: &str) -> Option<&'a str> {
    args.iter().position(|a| a == name).and_then(|i| args.get(i + 1)).map(String::as_str)
}

fn main() {
    let args: Vec<String> = std::env::args().collect();
    if args.len() < 2 {
        eprintln!("usage: pmv <drive|...> ...");
        std::process::exit(2);
    }
    util::silence_panics();
    let seed: u64 = arg(&args, "--seed").map_or(1, |s| s.parse().expect("seed"));
    let tier = arg(&args, "--tier").unwrap_or("quick").to_string();
    match args[1].as_str() {
        "drive" => {
            let family = args.get(2).expect("family").as_str();
            let outp = arg(&args, "--out").expect("--out");
            let mut out = Out::create(outp);
            match family {
                "dir" => {
                    let zero = if args.iter().any(|a| a == "--no-zero") { "no" } else if args.iter().any(|a| a == "--only-zero") { "only" } else { "all" };
                    codec::drive_dir(seed, &tier, arg(&args, "--stim"), zero, &mut out)
                }
                "hdr" => codec::drive_hdr(seed, &tier, &mut out),
                "hilbert" => {
                    let zmax: u8 = arg(&args, "--zmax").map_or(8, |s| s.parse().expect("zmax"));
                    hilbert::drive(seed, &tier, zmax, &mut out);
                }
                "files" => files::drive_files(seed, &tier, arg(&args, "--stim"), arg(&args, "--mode").unwrap_or("c03"), &mut out),
                "longrun" => store::drive_longrun(seed, &mut out),
                "reject" => files::drive_reject(seed, &mut out),
                "writedirs" => files::drive_writedirs(seed, &tier, &mut out),
                "steer" => files::drive_steer(seed, &tier, &mut out),
                "malformed" => {
                    let wd = std::path::Path::new(outp).parent().expect("dir").to_str().expect("utf8").to_string();
                    malformed::drive(seed, &tier, arg(&args, "--stim"), arg(&args, "--stim2"), &wd, &mut out)
                }
                "compress" => {
                    let wd = std::path::Path::new(outp).parent().expect("dir").to_str().expect("utf8").to_string();
                    compress::drive(seed, &tier, &wd, &mut out)
                }
                "twin" => twin::drive(seed, &tier, arg(&args, "--stim"), &mut out),
                "faults" => scen::drive_faults(seed, &tier, &mut out),
                "crash" => scen::drive_crash(seed, &tier, &mut out),
                "sched" => scen::drive_sched(seed, &tier, arg(&args, "--stim"), &mut out),
                "startpos" => scen::drive_startpos(seed, &tier, &mut out),
                "reads" => {
                    let mut rng = util::Rng::new(seed ^ 0x52454144);
                    let mut files: Vec<Vec<u8>> = files::collect_files(&mut rng, seed, &tier, arg(&args, "--stim"), "c20")
                        .into_iter()
                        .filter(|f| f.2)
                        .map(|f| f.0)
                        .collect();
                    for c in 1u8..=4 {
                        files.push(scen::archive_bytes(7, c));
                    }
                    files.push(scen::archive_bytes(0, 2));
                    files.push(scen::big_tile_archive());
                    scen::drive_reads(seed, &tier, files, &mut out)
                }
                "history" => store::drive_history(seed, &tier, &mut out),
                "bulk" => store::drive_bulk(seed, &tier, &mut out),
                "canon" => {
                    let wd = std::path::Path::new(outp).parent().expect("dir").to_str().expect("utf8").to_string();
                    store::drive_canon(seed, &tier, &wd, &mut out)
                }
                _ => {
                    eprintln!("unknown family {family}");
                    std::process::exit(2);
                }
            }
            let n = out.n;
            out.finish();
            println!("events={n}");
        }
        "save-child" => store::save_child(&args[2], &args[3]),
        "worker" => malformed::worker(&args[2], &args[3], args[4].parse().expect("start"), args[5].parse().expect("skip")),
        other => {
            eprintln!("unknown subcommand {other}");
            std::process::exit(2);
        }
    }
}
