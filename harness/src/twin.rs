//! C12: synchronous and asynchronous APIs side by side.  Each event carries the observation of
//! the sync call and of its async twin on the same input; TLC requires them to be equal (and the
//! written bytes identical where no compression codec is involved).

use crate::archive::*;
use crate::codec::{entries_json, gen_valid_dir};
use crate::files::{collect_files, Ctx, B};
use crate::store::{exec, Op};
use crate::util::*;
use pmtiles2::util::{read_directories, read_directories_async, write_directories, write_directories_async};
use pmtiles2::{Directory, Entry, Header, PMTiles};
use serde_json::{json, Value};
use std::io::Cursor;
use std::ops::Bound;

fn view_sync(bytes: &[u8], range: Option<&B>, ctx: &mut Ctx) -> Value {
    let r = guard(|| match range {
        None => PMTiles::from_reader(Cursor::new(bytes)),
        Some(r) => PMTiles::from_reader_partially(Cursor::new(bytes), r.clone()),
    });
    match r {
        Ok(Ok(mut pm)) => {
            let mut ids: Vec<u64> = pm.tile_ids().into_iter().copied().collect();
            ids.sort_unstable();
            let mut tiles = Vec::new();
            for id in &ids {
                let t = match guard(|| pm.get_tile_by_id(*id)) {
                    Ok(Ok(Some(b))) => ctx.toks.tok(&b),
                    _ => 0,
                };
                tiles.push(json!([limbs(*id), t]));
            }
            json!({"res": "ok", "n": pm.num_tiles(), "tiles": tiles, "settings": settings_json(&pm, ctx)})
        }
        Ok(Err(_)) => json!({"res": "err"}),
        Err(_) => json!({"res": "panic"}),
    }
}

fn view_async(bytes: &[u8], range: Option<&B>, ctx: &mut Ctx) -> Value {
    let r = guard(|| match range {
        None => block_on(PMTiles::from_async_reader(futures::io::Cursor::new(bytes))),
        Some(r) => block_on(PMTiles::from_async_reader_partially(futures::io::Cursor::new(bytes), r.clone())),
    });
    match r {
        Ok(Ok(mut pm)) => {
            let mut ids: Vec<u64> = pm.tile_ids().into_iter().copied().collect();
            ids.sort_unstable();
            let mut tiles = Vec::new();
            for id in &ids {
                let t = match guard(|| block_on(pm.get_tile_by_id_async(*id))) {
                    Ok(Ok(Some(b))) => ctx.toks.tok(&b),
                    _ => 0,
                };
                tiles.push(json!([limbs(*id), t]));
            }
            json!({"res": "ok", "n": pm.num_tiles(), "tiles": tiles, "settings": settings_json(&pm, ctx)})
        }
        Ok(Err(_)) => json!({"res": "err"}),
        Err(_) => json!({"res": "panic"}),
    }
}

fn settings_json<R>(pm: &PMTiles<R>, ctx: &mut Ctx) -> Value {
    json!({"ic": comp_code(pm.internal_compression), "tc": comp_code(pm.tile_compression), "tt": tt_code(pm.tile_type),
           "z": [pm.min_zoom, pm.max_zoom, pm.center_zoom],
           "coords": [format!("{:e}", pm.min_longitude), format!("{:e}", pm.min_latitude), format!("{:e}", pm.max_longitude),
                      format!("{:e}", pm.max_latitude), format!("{:e}", pm.center_longitude), format!("{:e}", pm.center_latitude)],
           "meta": ctx.metas.tok(&canonical_meta(&Value::Object(pm.meta_data.clone())))})
}

fn dir_write(es: &[Entry], c: u8, is_async: bool, toks: &mut Interner) -> (Value, Option<Vec<u8>>) {
    let d = Directory::from(es.to_vec());
    let comp = comp_of(c);
    let r = guard(|| {
        if is_async {
            let mut cur = futures::io::Cursor::new(Vec::new());
            block_on(d.to_async_writer(&mut cur, comp)).map(|()| cur.into_inner())
        } else {
            let mut b = Vec::new();
            d.to_writer(&mut b, comp).map(|()| b)
        }
    });
    match r {
        Ok(Ok(b)) => match up_decompress(c, &b) {
            Ok(raw) => (json!({"res": "ok", "raw": toks.tok(&raw)}), Some(b)),
            Err(_) => (json!({"res": "undecodable"}), None),
        },
        Ok(Err(_)) => (json!({"res": "err"}), None),
        Err(_) => (json!({"res": "panic"}), None),
    }
}

fn dir_read(bytes: &[u8], c: u8, is_async: bool) -> Value {
    let comp = comp_of(c);
    let r = guard(|| {
        if is_async {
            block_on(Directory::from_async_reader(&mut futures::io::Cursor::new(bytes), bytes.len() as u64, comp))
        } else {
            Directory::from_reader(&mut Cursor::new(bytes), bytes.len() as u64, comp)
        }
    });
    match r {
        Ok(Ok(d)) => json!({"res": "ok", "entries": entries_json(&Vec::<Entry>::from(d))}),
        Ok(Err(_)) => json!({"res": "err"}),
        Err(_) => json!({"res": "panic"}),
    }
}

pub fn drive(seed: u64, tier: &str, stim: Option<&str>, out: &mut Out) {
    let mut rng = Rng::new(seed ^ 0x5457);
    let mut ctx = Ctx::new();
    let mut n = 0u64;
    // 1. archive writers: the same logical archive through the sync and the async value
    // 13 = the "large data" archive: 13 tiles of 250 to 350 KB, about 3.9 MB of tile data
    let sizes: Vec<usize> = if tier == "thorough" { vec![0, 1, 7, 13, 60, 300, 4300, 9000] } else { vec![0, 7, 13, 300, 4300] };
    for &sz in &sizes {
        for ic in 1u8..=4 {
            if sz > 1000 && ic > 2 && tier != "thorough" {
                continue;
            }
            let tiles: Vec<(u64, Vec<u8>)> = {
                let mut id = 0u64; // the first tile is tile 0
                let mut first = true;
                (0..sz)
                    .map(|i| {
                        if !first {
                            id += 1 + rng.below(1 << 16) * (rng.below(3) / 2);
                        }
                        first = false;
                        let c = if sz == 13 {
                            rng.bytes(250_001 + 7_777 * i)
                        } else if i % 6 == 5 {
                            vec![1, 2, 3]
                        } else {
                            let l = 1 + rng.below(200) as usize;
                            rng.bytes(l)
                        };
                        (id, c)
                    })
                    .collect()
            };
            let set = Settings::random(&mut rng, ic);
            let mut files: Vec<Option<Vec<u8>>> = Vec::new();
            for api in [0u8, 1] {
                let obs = exec(&[Op::New { tt: set.tt, tc: set.tc, api }, Op::Set(set.clone()), Op::Bulk(tiles.clone()), Op::Save], false);
                files.push(obs.last().and_then(|o| o.file.clone()));
            }
            let mut views = Vec::new();
            for f in &files {
                match f {
                    Some(b) => {
                        views.push(view_sync(b, None, &mut ctx));
                        views.push(view_async(b, None, &mut ctx));
                    }
                    None => {
                        views.push(json!({"res": "write_failed"}));
                        views.push(json!({"res": "write_failed"}));
                    }
                }
            }
            let mut ft = Interner::default();
            let toks: Vec<u32> = files.iter().map(|f| f.as_ref().map_or(0, |b| ft.tok(b))).collect();
            out.emit(json!({"ev": "Twin", "what": "archive_write", "n_tiles": sz, "comp": ic, "none_codec": ic == 1,
                            "bytes_sync": toks[0], "bytes_async": toks[1], "views": views}));
            n += 1;
            // range-filtered opens of the sync-written file through both readers
            if let Some(b) = &files[0] {
                for r in [(Bound::Unbounded, Bound::Excluded(0u64)), (Bound::Included(0u64), Bound::Excluded(0u64)),
                          (Bound::Included(0u64), Bound::Included(0u64)), (Bound::Excluded(0u64), Bound::Unbounded)] {
                    out.emit(json!({"ev": "Twin", "what": "partial_open", "none_codec": false, "bytes_sync": 0, "bytes_async": 0,
                                    "views": [view_sync(b, Some(&r), &mut ctx), view_async(b, Some(&r), &mut ctx)]}));
                    n += 1;
                }
                for _ in 0..4 {
                    let (a, z) = (rng.below(tiles.len().max(1) as u64) as usize, rng.below(tiles.len().max(1) as u64) as usize);
                    let lo = tiles.get(a.min(z)).map_or(0, |t| t.0);
                    let hi = tiles.get(a.max(z)).map_or(9, |t| t.0);
                    let r: B = match rng.below(3) {
                        0 => (Bound::Included(lo), Bound::Excluded(hi)),
                        1 => (Bound::Unbounded, Bound::Included(hi)),
                        _ => (Bound::Excluded(lo), Bound::Unbounded),
                    };
                    out.emit(json!({"ev": "Twin", "what": "partial_open", "none_codec": false, "bytes_sync": 0, "bytes_async": 0,
                                    "views": [view_sync(b, Some(&r), &mut ctx), view_async(b, Some(&r), &mut ctx)]}));
                    n += 1;
                }
            }
        }
    }
    // 1a. lookups by coordinates at the extreme zooms, in memory and after a reopen, through both APIs
    {
        use pmtiles2::util::tile_id;
        let coords: Vec<(u8, u64, u64)> = vec![(0, 0, 0), (1, 1, 0), (15, 20_000, 7), (30, (1 << 30) - 1, 5), (31, 0, 0), (31, (1 << 31) - 1, 0),
                                               (31, 12_345, (1 << 31) - 1), (31, 1 << 30, 1 << 30)];
        let tiles: Vec<(u64, Vec<u8>)> = coords.iter().map(|(z, x, y)| (tile_id(*z, *x, *y), vec![*z, (*x % 251) as u8, (*y % 241) as u8, 9])).collect();
        let set = Settings::random(&mut rng, 2);
        let mut views = Vec::new();
        for api in [0u8, 1] {
            let mut ops = vec![Op::New { tt: set.tt, tc: set.tc, api }, Op::Set(set.clone()), Op::Bulk(tiles.clone())];
            for (z, x, y) in &coords {
                ops.push(Op::GetZxy { z: *z, x: *x, y: *y });
            }
            ops.extend([Op::Save, Op::Reopen { api }]);
            for (z, x, y) in &coords {
                ops.push(Op::GetZxy { z: *z, x: *x, y: *y });
                ops.push(Op::GetZxy { z: *z, x: *x, y: y ^ 1 });
            }
            let obs = exec(&ops, false);
            let looks: Vec<Value> = obs
                .iter()
                .filter(|o| matches!(o.op, Op::GetZxy { .. }))
                .map(|o| json!([o.res, o.content.as_ref().map_or(0, |c| ctx.toks.tok(c))]))
                .collect();
            views.push(json!({"res": "ok", "lookups": looks}));
        }
        out.emit(json!({"ev": "Twin", "what": "coordinate_lookups", "none_codec": false, "bytes_sync": 0, "bytes_async": 0, "views": views}));
        n += 1;
    }
    // 1b. metadata beyond 1 MiB (decompressed), written and read through both APIs
    for ic in [1u8, 2] {
        let mut set = Settings::random(&mut rng, ic);
        set.meta.insert("blob".into(), json!("m".repeat(1_500_000)));
        let tiles = vec![(3u64, vec![1u8, 2, 3])];
        let mut files: Vec<Option<Vec<u8>>> = Vec::new();
        for api in [0u8, 1] {
            let obs = exec(&[Op::New { tt: set.tt, tc: set.tc, api }, Op::Set(set.clone()), Op::Bulk(tiles.clone()), Op::Save], false);
            files.push(obs.last().and_then(|o| o.file.clone()));
        }
        let mut views = Vec::new();
        for f in files.iter().flatten() {
            views.push(view_sync(f, None, &mut ctx));
            views.push(view_async(f, None, &mut ctx));
        }
        out.emit(json!({"ev": "Twin", "what": "large_metadata", "none_codec": false, "bytes_sync": 0, "bytes_async": 0, "views": views}));
        n += 1;
    }
    // 1c. gzip sections made of two concatenated members (valid gzip): both readers must see the same thing
    {
        let gz = |b: &[u8]| up_compress(2, b).expect("gzip");
        let mut two = gz(b"hello ");
        two.extend(gz(b"world"));
        let s = guard(|| pmtiles2::util::decompress_all(pmtiles2::Compression::GZip, &two));
        let a = guard(|| -> std::io::Result<Vec<u8>> {
            use futures::AsyncReadExt;
            let mut src = futures::io::Cursor::new(&two[..]);
            let mut rd = pmtiles2::util::decompress_async(pmtiles2::Compression::GZip, &mut src)?;
            let mut v = Vec::new();
            block_on(rd.read_to_end(&mut v))?;
            Ok(v)
        });
        let mut t = Interner::default();
        let mut view = |r: Result<std::io::Result<Vec<u8>>, String>| match r {
            Ok(Ok(b)) => json!({"res": "ok", "tok": t.tok(&b)}),
            Ok(Err(_)) => json!({"res": "err"}),
            Err(_) => json!({"res": "panic"}),
        };
        let vs = [view(s), view(a)];
        out.emit(json!({"ev": "Twin", "what": "two_member_gzip_stream", "none_codec": false, "bytes_sync": 0, "bytes_async": 0, "views": vs}));
        n += 1;
        // an archive whose metadata section holds two gzip members
        let root = gz(&hint_encode_dir(&[HEntry { id: 4, run: 1, len: 3, off: 0 }]));
        let mut meta = gz(br#"{"name":"first member"}"#);
        meta.extend(gz(br#"{"name":"second member"}"#));
        let data = vec![9u8, 9, 9];
        let mut h = Vec::new();
        h.extend_from_slice(b"PMTiles");
        h.push(3);
        let mut pos = 127u64;
        for sec in [root.len(), meta.len(), 0, data.len()] {
            h.extend_from_slice(&pos.to_le_bytes());
            h.extend_from_slice(&(sec as u64).to_le_bytes());
            pos += sec as u64;
        }
        for c in [1u64, 1, 1] {
            h.extend_from_slice(&c.to_le_bytes());
        }
        h.extend_from_slice(&[1, 2, 1, 1, 0, 0]);
        h.extend_from_slice(&[0u8; 16]);
        h.push(0);
        h.extend_from_slice(&[0u8; 8]);
        h.extend_from_slice(&root);
        h.extend_from_slice(&meta);
        h.extend_from_slice(&data);
        out.emit(json!({"ev": "Twin", "what": "two_member_gzip_metadata", "none_codec": false, "bytes_sync": 0, "bytes_async": 0,
                        "views": [view_sync(&h, None, &mut ctx), view_async(&h, None, &mut ctx)]}));
        n += 1;
    }
    // 2. archives from other writers and the fixtures through both readers, read_directories twins
    let files = collect_files(&mut rng, seed, tier, stim, "c12");
    for (k, (bytes, _, with_data)) in files.iter().enumerate() {
        if !with_data || (k % 7 != 0 && bytes.len() < 100_000) {
            continue;
        }
        out.emit(json!({"ev": "Twin", "what": "foreign_open", "none_codec": false, "bytes_sync": 0, "bytes_async": 0,
                        "views": [view_sync(bytes, None, &mut ctx), view_async(bytes, None, &mut ctx)]}));
        n += 1;
        if bytes.len() >= 127 {
            let hdr = &bytes[..127];
            let le = |o: usize| u64::from_le_bytes(hdr[o..o + 8].try_into().expect("8"));
            let comp = comp_of(hdr[97].clamp(1, 4));
            let (root, leaf_off) = ((le(8), le(16)), le(40));
            let canon = |m: std::collections::HashMap<u64, pmtiles2::util::OffsetLength, _>| {
                let mut l: Vec<(u64, u64, u32)> = m.iter().map(|(k, v)| (*k, v.offset, v.length)).collect();
                l.sort_unstable();
                json!({"res": "ok", "map": l.iter().map(|x| json!([limbs(x.0), limbs(x.1), x.2])).collect::<Vec<_>>()})
            };
            let s = match guard(|| read_directories(&mut Cursor::new(&bytes[..]), comp, root, leaf_off, ..)) {
                Ok(Ok(m)) => canon(m),
                Ok(Err(_)) => json!({"res": "err"}),
                Err(_) => json!({"res": "panic"}),
            };
            let a = match guard(|| block_on(read_directories_async(&mut futures::io::Cursor::new(&bytes[..]), comp, root, leaf_off, ..))) {
                Ok(Ok(m)) => canon(m),
                Ok(Err(_)) => json!({"res": "err"}),
                Err(_) => json!({"res": "panic"}),
            };
            out.emit(json!({"ev": "Twin", "what": "read_directories", "none_codec": false, "bytes_sync": 0, "bytes_async": 0, "views": [s, a]}));
            n += 1;
        }
    }
    // 3. directories: writers (decompressed bytes), readers on each other's output, write_directories
    let mut toks = Interner::default();
    let mut lists: Vec<Vec<Entry>> = vec![vec![]];
    for i in 0..(if tier == "thorough" { 200 } else { 40 }) {
        let len = 1 + rng.below(if i % 5 == 0 { 2000 } else { 30 }) as usize;
        lists.push(gen_valid_dir(&mut rng, len, i % 2 == 0));
    }
    lists.push((0..3000u64).map(|i| Entry { tile_id: i, run_length: 1, length: 50, offset: 50 * i }).collect());
    // index 44 (a multiple of 4: exercised by the write_directories twins): irregular, large enough to spill under every codec
    while lists.len() % 4 != 0 {
        lists.push(vec![]);
    }
    lists.push({
        let mut v = Vec::new();
        let (mut id, mut off) = (0u64, 0u64);
        for _ in 0..7000 {
            id += 1 + rng.below(1 << 20);
            let len = 1 + rng.below(60_000) as u32;
            v.push(Entry { tile_id: id, run_length: 1, length: len, offset: off });
            off += u64::from(len) + rng.below(3);
        }
        v
    });
    for (li, es) in lists.iter().enumerate() {
        for c in 1u8..=4 {
            let (ws, bs) = dir_write(es, c, false, &mut toks);
            let (wa, ba) = dir_write(es, c, true, &mut toks);
            let mut bt = Interner::default();
            out.emit(json!({"ev": "Twin", "what": "directory_write", "comp": c, "none_codec": c == 1,
                            "bytes_sync": bs.as_ref().map_or(0, |b| bt.tok(b)), "bytes_async": ba.as_ref().map_or(0, |b| bt.tok(b)),
                            "views": [ws, wa]}));
            n += 1;
            let mut views = Vec::new();
            for b in [&bs, &ba].into_iter().flatten() {
                views.push(dir_read(b, c, false));
                views.push(dir_read(b, c, true));
            }
            out.emit(json!({"ev": "Twin", "what": "directory_read", "none_codec": false, "bytes_sync": 0, "bytes_async": 0, "views": views}));
            n += 1;
            if li % 4 == 0 {
                // write_directories twins: written root (decompressed) and leaf section resolution
              for strat in [None, Some(pmtiles2::util::WriteDirsOverflowStrategy::OnlyLeafPointers { start_size: Some(512) })] {
                if strat.is_some() && es.len() < 5000 {
                    continue;
                }
                let mut views = Vec::new();
                let mut bts = Vec::new();
                for is_async in [false, true] {
                    let mut buf = Vec::new();
                    let mut pos = 0u64;
                    let r = guard(|| {
                        if is_async {
                            let mut cur = futures::io::Cursor::new(&mut buf);
                            let r = block_on(write_directories_async(&mut cur, es, comp_of(c), strat));
                            pos = cur.position();
                            r
                        } else {
                            let mut cur = Cursor::new(&mut buf);
                            let r = write_directories(&mut cur, es, comp_of(c), strat);
                            pos = cur.position();
                            r
                        }
                    });
                    match r {
                        Ok(Ok(leaf)) => {
                            let root_raw = up_decompress(c, &buf).unwrap_or_default();
                            let root = hint_decode_dir(&root_raw).unwrap_or_default();
                            // resolution: concatenated leaf entries (or the root itself)
                            let mut flat: Vec<Value> = Vec::new();
                            for e in &root {
                                if e.run == 0 {
                                    let sl = leaf.get(e.off as usize..(e.off + e.len) as usize).unwrap_or(&[]);
                                    let raw = up_decompress(c, sl).unwrap_or_default();
                                    flat.extend(hint_decode_dir(&raw).unwrap_or_default().iter().map(hentry_json));
                                } else {
                                    flat.push(hentry_json(e));
                                }
                            }
                            views.push(json!({"res": "ok", "pos_is_len": pos == buf.len() as u64, "spilled": !leaf.is_empty(),
                                              "n_root": root.len(), "resolution": toks.tok(&serde_json::to_vec(&flat).expect("ser"))}));
                            let mut all = buf.clone();
                            all.extend_from_slice(&leaf);
                            bts.push(toks.tok(&all));
                        }
                        Ok(Err(_)) => {
                            views.push(json!({"res": "err"}));
                            bts.push(0);
                        }
                        Err(_) => {
                            views.push(json!({"res": "panic"}));
                            bts.push(0);
                        }
                    }
                }
                // for codecs the number of leaves may differ legitimately only if compressed sizes differ: compare resolution only
                let views: Vec<Value> = views
                    .into_iter()
                    .map(|mut v| {
                        if c != 1 {
                            v.as_object_mut().map(|o| {
                                o.remove("n_root");
                                o.remove("spilled");
                            });
                        }
                        v
                    })
                    .collect();
                out.emit(json!({"ev": "Twin", "what": "write_directories", "comp": c, "none_codec": c == 1,
                                "bytes_sync": bts[0], "bytes_async": bts[1], "views": views}));
                n += 1;
              }
            }
        }
    }
    // 4. headers: both directions
    for i in 0..(if tier == "thorough" { 3000 } else { 400 }) {
        let mut b = vec![0u8; 127];
        b[..7].copy_from_slice(b"PMTiles");
        b[7] = 3;
        for x in b[8..96].iter_mut() {
            *x = rng.next() as u8;
        }
        b[96] = rng.below(2) as u8;
        b[97] = rng.below(5) as u8;
        b[98] = rng.below(5) as u8;
        b[99] = rng.below(6) as u8;
        for x in b[100..127].iter_mut() {
            *x = rng.next() as u8;
        }
        if i % 10 == 0 {
            b.truncate(rng.below(127) as usize);
        }
        if i % 17 == 0 && b.len() > 99 {
            b[97] = 9;
        }
        let mut views = Vec::new();
        let mut bts = Vec::new();
        for is_async in [false, true] {
            let r = guard(|| {
                if is_async {
                    block_on(Header::from_async_reader(&mut futures::io::Cursor::new(&b[..])))
                } else {
                    Header::from_reader(&mut Cursor::new(&b[..]))
                }
            });
            match r {
                Ok(Ok(h)) => {
                    let w = guard(|| {
                        if is_async {
                            let mut cur = futures::io::Cursor::new(Vec::new());
                            block_on(h.to_async_writer(&mut cur)).map(|()| cur.into_inner())
                        } else {
                            let mut v = Vec::new();
                            h.to_writer(&mut v).map(|()| v)
                        }
                    });
                    views.push(json!({"res": "ok", "fields": toks.tok(format!("{h:?}").as_bytes())}));
                    bts.push(match w {
                        Ok(Ok(v)) => toks.tok(&v),
                        _ => 0,
                    });
                }
                Ok(Err(_)) => {
                    views.push(json!({"res": "err"}));
                    bts.push(0);
                }
                Err(_) => {
                    views.push(json!({"res": "panic"}));
                    bts.push(0);
                }
            }
        }
        out.emit(json!({"ev": "Twin", "what": "header", "none_codec": true, "bytes_sync": bts[0], "bytes_async": bts[1], "views": views}));
        n += 1;
    }
    println!("stat twin_cases={n}");
}
