//! Driver for C07: tile-ID computation, its inverse, and coordinate lookups outside the grid.

use crate::util::*;
use pmtiles2::util::{tile_id, zxy};
use pmtiles2::{Compression, PMTiles, TileType};
use serde_json::{json, Value};

const FIRST_INVALID_ID: u64 = 0x5555_5555_5555_5555;

fn base(z: u32) -> u64 {
    (((1u128 << (2 * z)) - 1) / 3) as u64
}

fn tid(z: u8, x: u64, y: u64) -> Value {
    match guard(|| tile_id(z, x, y)) {
        Ok(v) => limbs(v),
        Err(_) => json!([65536, 0, 0, 0]), // sentinel: equals no U64
    }
}

fn inv_case(id: u64) -> Value {
    match guard(|| zxy(id)) {
        Ok(Ok((z, x, y))) => json!({"id": limbs(id), "res": "ok", "z": z, "x": limbs(x), "y": limbs(y)}),
        Ok(Err(_)) => json!({"id": limbs(id), "res": "err"}),
        Err(_) => json!({"id": limbs(id), "res": "panic"}),
    }
}

pub fn drive(seed: u64, tier: &str, zmax: u8, out: &mut Out) {
    let mut rng = Rng::new(seed ^ 0x48494c);
    // ---- exhaustive rows for z <= zmax: one event per (z, x) column (split when long)
    for z in 0..=zmax {
        let n = 1u64 << z;
        for x in 0..n {
            let mut y0 = 0u64;
            while y0 < n {
                let k = (n - y0).min(256);
                let ids: Vec<Value> = (y0..y0 + k).map(|y| tid(z, x, y)).collect();
                out.emit(json!({"ev": "Row", "z": z, "x": x, "y0": y0, "ids": ids}));
                y0 += k;
            }
        }
    }
    // ---- exhaustive inverse for all IDs of zooms <= min(zmax, 7), chunked
    let zi = zmax.min(if tier == "thorough" { 9 } else { 7 });
    let last = base(u32::from(zi) + 1);
    let mut chunk = Vec::new();
    for id in 0..last {
        chunk.push(inv_case(id));
        if chunk.len() == 512 {
            out.emit(json!({"ev": "Inv", "cases": chunk}));
            chunk = Vec::new();
        }
    }
    // ---- boundary and random points at every zoom 0..31
    let per_zoom = if tier == "thorough" { 1500 } else { 250 };
    let mut pts = Vec::new();
    for z in 0u8..=31 {
        let n = 1u64 << z;
        let m = n - 1;
        let mut cand: Vec<(u64, u64)> = vec![
            (0, 0), (m, 0), (0, m), (m, m), (m / 2, m / 2), (n / 2, n / 2), (n / 2, m / 2),
            (m / 2, n / 2), (1 & m, 0), (0, 1 & m), (m, 1 & m), (m.saturating_sub(1), m),
        ];
        for _ in 0..per_zoom {
            cand.push((rng.next() & m, rng.next() & m));
        }
        for (x, y) in cand {
            pts.push(json!({"z": z, "x": limbs(x), "y": limbs(y), "id": tid(z, x, y)}));
            if pts.len() == 512 {
                out.emit(json!({"ev": "Pts", "cases": pts}));
                pts = Vec::new();
            }
        }
    }
    if !pts.is_empty() {
        out.emit(json!({"ev": "Pts", "cases": pts}));
    }
    // ---- inverse at every zoom-block edge +-2, random IDs, and IDs beyond zoom 31
    for z in 0u32..=32 {
        let b = base(z);
        for d in -2i64..=2 {
            let id = if d < 0 { b.checked_sub((-d) as u64) } else { b.checked_add(d as u64) };
            if let Some(id) = id {
                chunk.push(inv_case(id));
            }
        }
    }
    let n_rand = if tier == "thorough" { 40_000 } else { 6000 };
    for i in 0..n_rand {
        let id = match i % 4 {
            0 => rng.below(FIRST_INVALID_ID),
            1 => rng.magnitude(62),
            2 => FIRST_INVALID_ID + rng.magnitude(62),
            _ => rng.next(),
        };
        chunk.push(inv_case(id));
        if chunk.len() >= 512 {
            out.emit(json!({"ev": "Inv", "cases": chunk}));
            chunk = Vec::new();
        }
    }
    for id in [u64::MAX, u64::MAX - 1, FIRST_INVALID_ID, FIRST_INVALID_ID - 1, FIRST_INVALID_ID + 1, 1 << 63] {
        chunk.push(inv_case(id));
    }
    out.emit(json!({"ev": "Inv", "cases": chunk}));

    // ---- lookups by coordinates, in and outside the grid
    let n_arch = if tier == "thorough" { 60 } else { 12 };
    for a in 0..n_arch {
        lookup_archive(&mut rng, a, out);
    }
}

fn lookup_archive(rng: &mut Rng, a: usize, out: &mut Out) {
    let zs: Vec<u8> = match a % 4 {
        0 => vec![0, 1, 2],
        1 => vec![2, 3, 5],
        2 => vec![8, 15, 16],
        _ => vec![1, 30, 31],
    };
    let hostile_z: [u8; 6] = [32, 33, 40, 64, 128, 255];
    // candidate coordinates
    let mut cases: Vec<(u8, u64, u64)> = Vec::new();
    for &z in &zs {
        let n = 1u64 << z;
        for _ in 0..6 {
            let (x, y) = (rng.next() % n, rng.next() % n);
            cases.push((z, x, y)); // in grid
            for k in [n, n + 1, n + (rng.next() % n.max(1)), 2 * n, 3 * n, n * (2 + rng.below(5)), u64::MAX, u64::MAX - (rng.next() % n.max(1)), 1 << 32, 1 << 33, 1 << 63] {
                cases.push((z, x.wrapping_add(k), y));
                cases.push((z, x, y.wrapping_add(k)));
                if rng.chance(1, 3) {
                    cases.push((z, x.wrapping_add(k), y.wrapping_add(k)));
                }
            }
        }
    }
    for &z in &hostile_z {
        for (x, y) in [(0u64, 0u64), (1, 1), (rng.next(), rng.next()), (u64::MAX, 0), (1 << 31, 1 << 31), (5, u64::MAX)] {
            cases.push((z, x, y));
        }
    }
    // archive: for every case, the tile the library itself computes (the "aliased" tile) and the
    // in-grid tile with the wrapped coordinates
    let mut interner = Interner::default();
    let mut tiles: std::collections::BTreeMap<u64, u32> = std::collections::BTreeMap::new();
    let mut want: Vec<u64> = Vec::new();
    for &(z, x, y) in &cases {
        if let Ok(id) = guard(|| tile_id(z, x, y)) {
            want.push(id);
        }
        if z < 32 {
            let n = 1u64 << z;
            if let Ok(id) = guard(|| tile_id(z, x % n, y % n)) {
                if rng.chance(2, 3) {
                    want.push(id);
                }
            }
        }
    }
    for id in want {
        if tiles.contains_key(&id) {
            continue;
        }
        let mut c = id.to_le_bytes().to_vec();
        c.extend(rng.bytes(1 + (id % 5) as usize));
        tiles.insert(id, interner.tok(&c));
    }
    // half of the archives are looked up after a save + reopen (reader-backed tiles)
    let reopen = a % 2 == 1;
    let is_async = a % 4 >= 2;
    let mut bytes = Vec::new();
    if reopen {
        let mut pm = PMTiles::new(TileType::Png, Compression::None);
        pm.internal_compression = Compression::GZip; // named, not the constructor's default: defaults are not this property's business
        for (id, tok) in &tiles {
            pm.add_tile(*id, interner.items[*tok as usize - 1].clone()).expect("add");
        }
        let mut cur = std::io::Cursor::new(Vec::new());
        pm.to_writer(&mut cur).expect("write lookup archive");
        bytes = cur.into_inner();
    }
    let mut obs = Vec::new();
    {
        let mut lookup = |f: &mut dyn FnMut(u64, u64, u8) -> Result<std::io::Result<Option<Vec<u8>>>, String>, interner: &mut Interner| {
            for &(z, x, y) in &cases {
                let r = f(x, y, z);
                let o = match r {
                    Ok(Ok(Some(b))) => json!({"z": z, "x": limbs(x), "y": limbs(y), "res": "some", "tok": interner.tok(&b)}),
                    Ok(Ok(None)) => json!({"z": z, "x": limbs(x), "y": limbs(y), "res": "none"}),
                    Ok(Err(_)) => json!({"z": z, "x": limbs(x), "y": limbs(y), "res": "err"}),
                    Err(_) => json!({"z": z, "x": limbs(x), "y": limbs(y), "res": "panic"}),
                };
                obs.push(o);
            }
        };
        if !reopen {
            if is_async {
                let mut pma = PMTiles::new_async(TileType::Png, Compression::None);
                for (id, tok) in &tiles {
                    pma.add_tile(*id, interner.items[*tok as usize - 1].clone()).expect("add");
                }
                lookup(&mut |x, y, z| guard(|| block_on(pma.get_tile_async(x, y, z))), &mut interner);
            } else {
                let mut pm = PMTiles::new(TileType::Png, Compression::None);
                for (id, tok) in &tiles {
                    pm.add_tile(*id, interner.items[*tok as usize - 1].clone()).expect("add");
                }
                lookup(&mut |x, y, z| guard(|| pm.get_tile(x, y, z)), &mut interner);
            }
        } else if is_async {
            let mut p = block_on(PMTiles::from_async_reader(futures::io::Cursor::new(&bytes[..]))).expect("open");
            lookup(&mut |x, y, z| guard(|| block_on(p.get_tile_async(x, y, z))), &mut interner);
        } else {
            let mut p = PMTiles::from_bytes(&bytes[..]).expect("open");
            lookup(&mut |x, y, z| guard(|| p.get_tile(x, y, z)), &mut interner);
        }
    }
    let tl: Vec<Value> = tiles.iter().map(|(id, tok)| json!({"id": limbs(*id), "tok": tok})).collect();
    out.emit(json!({"ev": "Lookup", "reopen": reopen, "mode": if is_async {"async"} else {"sync"}, "tiles": tl, "cases": obs}));
}
