//! Instrumented in-memory stream: records every operation, can grant short transfers according
//! to a schedule, answer Pending (async), and fail-stop from a given operation on.
//! Implements std Read/Write/Seek and futures AsyncRead/AsyncWrite/AsyncSeek.

use std::io::{self, Read, Seek, SeekFrom, Write};
use std::pin::Pin;
use std::sync::{Arc, Mutex};
use std::task::{Context, Poll};

#[derive(Clone, Debug, PartialEq)]
pub enum OpKind {
    Read,
    Write,
    Seek,
    Flush,
    Close,
}

#[derive(Clone, Debug)]
pub struct OpRec {
    pub kind: OpKind,
    pub pos_before: u64,
    pub req: u64,
    pub got: u64,
    pub pos_after: u64,
    pub ok: bool,
    /// bytes written (only when `keep_bytes`)
    pub bytes: Option<Vec<u8>>,
    /// seek argument: (whence 0 start / 1 current / 2 end, offset)
    pub seek: Option<(u8, i64)>,
}

#[derive(Default)]
pub struct Ctl {
    pub log: Vec<OpRec>,
    /// operations with index >= fail_from fail (fail-stop)
    pub fail_from: Option<usize>,
    /// per-call maximum transfer sizes, used round-robin; empty = unlimited
    pub sched: Vec<usize>,
    sched_i: usize,
    /// async: pattern of Pending answers before each Ready (cycled); e.g. [1,0,2]
    pub pending: Vec<u8>,
    pend_i: usize,
    pend_left: Option<u8>,
    pub keep_bytes: bool,
    pub pendings_answered: u64,
}

pub type Shared = Arc<Mutex<Ctl>>;

pub struct TStream {
    pub data: Vec<u8>,
    pub pos: u64,
    pub ctl: Shared,
}

pub fn new_ctl() -> Shared {
    Arc::new(Mutex::new(Ctl::default()))
}

impl TStream {
    pub fn new(data: Vec<u8>, ctl: Shared) -> Self {
        TStream { data, pos: 0, ctl }
    }

    fn failing(&self) -> bool {
        let c = self.ctl.lock().expect("ctl");
        c.fail_from.map_or(false, |k| c.log.len() >= k)
    }

    fn grant(&self, req: usize) -> usize {
        let mut c = self.ctl.lock().expect("ctl");
        if c.sched.is_empty() || req == 0 {
            return req;
        }
        let s = c.sched[c.sched_i % c.sched.len()].max(1);
        c.sched_i += 1;
        req.min(s)
    }

    fn record(&self, r: OpRec) {
        self.ctl.lock().expect("ctl").log.push(r);
    }

    fn injected() -> io::Error {
        io::Error::new(io::ErrorKind::Other, "injected I/O fault")
    }

    fn do_read(&mut self, buf: &mut [u8]) -> io::Result<usize> {
        let pos = self.pos;
        if self.failing() {
            self.record(OpRec { kind: OpKind::Read, pos_before: pos, req: buf.len() as u64, got: 0, pos_after: pos, ok: false, bytes: None, seek: None });
            return Err(Self::injected());
        }
        let avail = (self.data.len() as u64).saturating_sub(pos) as usize;
        let n = self.grant(buf.len()).min(avail);
        if n > 0 {
            buf[..n].copy_from_slice(&self.data[pos as usize..pos as usize + n]);
        }
        self.pos += n as u64;
        self.record(OpRec { kind: OpKind::Read, pos_before: pos, req: buf.len() as u64, got: n as u64, pos_after: self.pos, ok: true, bytes: None, seek: None });
        Ok(n)
    }

    fn do_write(&mut self, buf: &[u8]) -> io::Result<usize> {
        let pos = self.pos;
        if self.failing() {
            self.record(OpRec { kind: OpKind::Write, pos_before: pos, req: buf.len() as u64, got: 0, pos_after: pos, ok: false, bytes: None, seek: None });
            return Err(Self::injected());
        }
        let n = self.grant(buf.len());
        let end = pos as usize + n;
        if end > self.data.len() {
            self.data.resize(end, 0); // holes read as zero
        }
        self.data[pos as usize..end].copy_from_slice(&buf[..n]);
        self.pos += n as u64;
        let keep = self.ctl.lock().expect("ctl").keep_bytes;
        self.record(OpRec { kind: OpKind::Write, pos_before: pos, req: buf.len() as u64, got: n as u64, pos_after: self.pos, ok: true,
                            bytes: if keep { Some(buf[..n].to_vec()) } else { None }, seek: None });
        Ok(n)
    }

    fn do_seek(&mut self, to: SeekFrom) -> io::Result<u64> {
        let pos = self.pos;
        let arg = match to {
            SeekFrom::Start(o) => (0u8, o as i64),
            SeekFrom::Current(o) => (1, o),
            SeekFrom::End(o) => (2, o),
        };
        if self.failing() {
            self.record(OpRec { kind: OpKind::Seek, pos_before: pos, req: 0, got: 0, pos_after: pos, ok: false, bytes: None, seek: Some(arg) });
            return Err(Self::injected());
        }
        let new = match to {
            SeekFrom::Start(o) => Some(o),
            SeekFrom::Current(o) => pos.checked_add_signed(o),
            SeekFrom::End(o) => (self.data.len() as u64).checked_add_signed(o),
        };
        let Some(new) = new else {
            self.record(OpRec { kind: OpKind::Seek, pos_before: pos, req: 0, got: 0, pos_after: pos, ok: false, bytes: None, seek: Some(arg) });
            return Err(io::Error::new(io::ErrorKind::InvalidInput, "seek before start"));
        };
        self.pos = new;
        self.record(OpRec { kind: OpKind::Seek, pos_before: pos, req: 0, got: 0, pos_after: new, ok: true, bytes: None, seek: Some(arg) });
        Ok(new)
    }

    fn do_flush(&mut self, kind: OpKind) -> io::Result<()> {
        let pos = self.pos;
        if self.failing() {
            self.record(OpRec { kind, pos_before: pos, req: 0, got: 0, pos_after: pos, ok: false, bytes: None, seek: None });
            return Err(Self::injected());
        }
        self.record(OpRec { kind, pos_before: pos, req: 0, got: 0, pos_after: pos, ok: true, bytes: None, seek: None });
        Ok(())
    }

    /// async: should this poll answer Pending first?
    fn pending_now(&mut self, cx: &mut Context<'_>) -> bool {
        let mut c = self.ctl.lock().expect("ctl");
        if c.pending.is_empty() {
            return false;
        }
        let left = match c.pend_left {
            Some(l) => l,
            None => {
                let l = c.pending[c.pend_i % c.pending.len()];
                c.pend_i += 1;
                l
            }
        };
        if left == 0 {
            c.pend_left = None;
            false
        } else {
            c.pend_left = Some(left - 1);
            c.pendings_answered += 1;
            cx.waker().wake_by_ref();
            true
        }
    }
}

impl Read for TStream {
    fn read(&mut self, buf: &mut [u8]) -> io::Result<usize> {
        self.do_read(buf)
    }
}
impl Write for TStream {
    fn write(&mut self, buf: &[u8]) -> io::Result<usize> {
        self.do_write(buf)
    }
    fn flush(&mut self) -> io::Result<()> {
        self.do_flush(OpKind::Flush)
    }
}
impl Seek for TStream {
    fn seek(&mut self, pos: SeekFrom) -> io::Result<u64> {
        self.do_seek(pos)
    }
}

impl futures::io::AsyncRead for TStream {
    fn poll_read(mut self: Pin<&mut Self>, cx: &mut Context<'_>, buf: &mut [u8]) -> Poll<io::Result<usize>> {
        if self.pending_now(cx) {
            return Poll::Pending;
        }
        Poll::Ready(self.do_read(buf))
    }
}
impl futures::io::AsyncWrite for TStream {
    fn poll_write(mut self: Pin<&mut Self>, cx: &mut Context<'_>, buf: &[u8]) -> Poll<io::Result<usize>> {
        if self.pending_now(cx) {
            return Poll::Pending;
        }
        Poll::Ready(self.do_write(buf))
    }
    fn poll_flush(mut self: Pin<&mut Self>, cx: &mut Context<'_>) -> Poll<io::Result<()>> {
        if self.pending_now(cx) {
            return Poll::Pending;
        }
        Poll::Ready(self.do_flush(OpKind::Flush))
    }
    fn poll_close(mut self: Pin<&mut Self>, cx: &mut Context<'_>) -> Poll<io::Result<()>> {
        if self.pending_now(cx) {
            return Poll::Pending;
        }
        Poll::Ready(self.do_flush(OpKind::Close))
    }
}
impl futures::io::AsyncSeek for TStream {
    fn poll_seek(mut self: Pin<&mut Self>, cx: &mut Context<'_>, pos: SeekFrom) -> Poll<io::Result<u64>> {
        if self.pending_now(cx) {
            return Poll::Pending;
        }
        Poll::Ready(self.do_seek(pos))
    }
}

/// image of the stream after the first k recorded operations, replayed from `initial`
pub fn image_after(initial: &[u8], log: &[OpRec], k: usize) -> Vec<u8> {
    let mut img = initial.to_vec();
    for r in log.iter().take(k) {
        if r.kind == OpKind::Write && r.ok {
            if let Some(b) = &r.bytes {
                let end = r.pos_before as usize + b.len();
                if end > img.len() {
                    img.resize(end, 0);
                }
                img[r.pos_before as usize..end].copy_from_slice(b);
            }
        }
    }
    img
}
