//! C08: hostile and damaged inputs.  The parent builds the corpus and runs every input in a
//! sandboxed worker process (address-space limit, progress timeout); a panic is caught in the
//! worker, an abort / stack overflow / timeout is seen by the parent as the worker's death.

use crate::archive::*;
use crate::util::*;
use pmtiles2::util::{decompress_all, read_directories, read_directories_async, zxy};
use pmtiles2::{Directory, Header, PMTiles};
use serde_json::{json, Value};
use std::io::{BufRead, Cursor, Write};

const BUDGET: u64 = 200_000;

// ---------------------------------------------------------------------------------------
// worker side

fn kind_of<T>(r: Result<std::io::Result<T>, String>) -> (&'static str, Option<T>) {
    match r {
        Ok(Ok(v)) => ("ok", Some(v)),
        Ok(Err(_)) => ("err", None),
        Err(_) => ("panic", None),
    }
}

/// all calls made on one input; `emit(call, kind)` is invoked with kind "started" before and the
/// outcome after each call
fn run_calls(bytes: &[u8], emit: &mut dyn FnMut(&str, &str)) {
    macro_rules! call {
        ($name:expr, $body:expr) => {{
            emit($name, "started");
            let (k, v) = kind_of(guard(|| $body));
            emit($name, k);
            v
        }};
    }
    let hdr = call!("Header::from_bytes", Header::from_bytes(bytes));
    call!("Header::from_async_reader", block_on(Header::from_async_reader(&mut futures::io::Cursor::new(bytes))));
    for c in 1u8..=4 {
        let tail = if bytes.len() > 127 { &bytes[127..] } else { bytes };
        call!(&format!("Directory::from_bytes/c{c}"), Directory::from_bytes(tail, comp_of(c)));
    }
    call!("Directory::from_async_reader/c1", {
        let tail = if bytes.len() > 127 { &bytes[127..] } else { bytes };
        block_on(Directory::from_async_reader(&mut futures::io::Cursor::new(tail), tail.len() as u64, comp_of(1)))
    });
    call!("decompress_all/gzip", decompress_all(pmtiles2::Compression::GZip, bytes));
    if let Some(h) = &hdr {
        let (root, leaf_off, comp) = ((h.root_directory_offset, h.root_directory_length), h.leaf_directories_offset, h.internal_compression);
        call!("read_directories", read_directories(&mut Cursor::new(bytes), comp, root, leaf_off, ..).map(|_| ()));
        call!("read_directories/range", read_directories(&mut Cursor::new(bytes), comp, root, leaf_off, 3..=9).map(|_| ()));
        call!("read_directories_async", block_on(read_directories_async(&mut futures::io::Cursor::new(bytes), comp, root, leaf_off, ..)).map(|_| ()));
    }
    let ids: Vec<u64> = match call!("PMTiles::from_bytes", PMTiles::from_bytes(bytes)) {
        Some(mut pm) => {
            let mut ids: Vec<u64> = pm.tile_ids().into_iter().copied().collect();
            ids.sort_unstable();
            ids.truncate(6);
            for id in &ids {
                call!("get_tile_by_id", pm.get_tile_by_id(*id).map(|_| ()));
                emit("zxy", "started");
                let z = guard(|| zxy(*id).is_ok());
                emit("zxy", if z.is_ok() { "ok" } else { "panic" });
            }
            call!("get_tile", pm.get_tile(0, 0, 0).map(|_| ()));
            call!("to_writer", pm.to_writer(&mut Cursor::new(Vec::new())));
            ids
        }
        None => vec![],
    };
    call!("from_bytes_partially/..=5", PMTiles::from_bytes_partially(bytes, ..=5).map(|_| ()));
    call!("from_bytes_partially/7..", PMTiles::from_bytes_partially(bytes, 7..).map(|_| ()));
    call!("from_bytes_partially/..0", PMTiles::from_bytes_partially(bytes, ..0).map(|_| ()));
    if let Some(mut pm) = call!("from_async_reader", block_on(PMTiles::from_async_reader(futures::io::Cursor::new(bytes)))) {
        for id in ids.iter().take(2) {
            call!("get_tile_by_id_async", block_on(pm.get_tile_by_id_async(*id)).map(|_| ()));
        }
        call!("to_async_writer", block_on(pm.to_async_writer(&mut futures::io::Cursor::new(Vec::new()))));
    }
    call!("from_async_reader_partially", block_on(PMTiles::from_async_reader_partially(futures::io::Cursor::new(bytes), 2..100)).map(|_| ()));
}

/// worker: inputs file has one JSON byte array per line; from `start_input`/`skip_calls` on
pub fn worker(inputs: &str, out: &str, start_input: usize, skip_calls: usize) {
    let f = std::io::BufReader::new(std::fs::File::open(inputs).expect("inputs"));
    let mut o = std::fs::OpenOptions::new().append(true).create(true).open(out).expect("out");
    for (i, line) in f.lines().enumerate() {
        if i < start_input {
            continue;
        }
        let line = line.expect("line");
        let bytes = json_bytes(&serde_json::from_str::<Value>(&line).expect("json"));
        let skip = if i == start_input { skip_calls } else { 0 };
        let mut oc = o.try_clone().expect("clone out");
        let th = std::thread::Builder::new().stack_size(2 << 20).spawn(move || {
            let mut seen = 0usize;
            run_calls_skipping(&bytes, skip, &mut |call, kind| {
                let _ = writeln!(oc, "{}", json!({"i": i, "call": call, "kind": kind, "n": seen}));
                let _ = oc.flush();
                if kind != "started" {
                    seen += 1;
                }
            });
        });
        let _ = th.expect("spawn").join();
        let _ = writeln!(o, "{}", json!({"i": i, "call": "", "kind": "input_done"}));
    }
}

/// like run_calls but the first `skip` calls (those that already have an outcome, the last of them the
/// one that killed the previous worker) are not executed again
fn run_calls_skipping(bytes: &[u8], skip: usize, emit: &mut dyn FnMut(&str, &str)) {
    if skip == 0 {
        run_calls(bytes, emit);
        return;
    }
    // calls are deterministic in order: replay with a counting filter that suppresses execution is not
    // possible without re-running them, so the remaining calls of this input are abandoned
    emit("", "rest_of_input_abandoned_after_crash");
}

// ---------------------------------------------------------------------------------------
// parent side

struct Input {
    class: String,
    bytes: Vec<u8>,
    plain: Option<Vec<u8>>,
}

/// hint walker (pre-filter only; TLC re-derives the verdict): declared tiles + directory visits
fn declared_work(b: &[u8]) -> u64 {
    fn le(b: &[u8], o: usize) -> u64 {
        u64::from_le_bytes(b[o..o + 8].try_into().expect("8"))
    }
    fn walk(b: &[u8], leaf_off: u64, off: u64, len: u64, depth: u32, acc: &mut u64) {
        if depth > 4 || *acc > BUDGET * 2 {
            return;
        }
        *acc += 1;
        let Some(end) = off.checked_add(len) else { return };
        if end > b.len() as u64 {
            return;
        }
        let Some(es) = hint_decode_dir(&b[off as usize..end as usize]) else { return };
        // mirror of Malformed!Walk: a zero length makes the directory invalid (nothing is expanded);
        // over-long u32 fields count with their truncated value
        if es.iter().any(|e| e.len == 0) {
            return;
        }
        let wide = es.iter().any(|e| e.run > u64::from(u32::MAX) || e.len > u64::from(u32::MAX));
        for e in es {
            if wide {
                *acc = acc.saturating_add(e.run & 0xffff_ffff);
                continue;
            }
            if e.run == 0 {
                if let Some(o) = leaf_off.checked_add(e.off) {
                    walk(b, leaf_off, o, e.len, depth + 1, acc);
                }
            } else {
                *acc = acc.saturating_add(e.run);
            }
        }
    }
    if b.len() < 127 || &b[..7] != b"PMTiles" || b[97] != 1 {
        return 0;
    }
    let mut acc = 0u64;
    walk(b, le(b, 40), le(b, 8), le(b, 16), 1, &mut acc);
    acc
}

fn plain_archive(root: &[u8], leaves: &[Vec<u8>], ic: u8, patch: &Value) -> Vec<u8> {
    let rootz = up_compress(ic, root).expect("compress");
    let meta = up_compress(ic, b"{}").expect("compress");
    let mut leaf = Vec::new();
    for l in leaves {
        leaf.extend_from_slice(l);
    }
    let data = vec![7u8; 16];
    let mut h = Vec::new();
    h.extend_from_slice(b"PMTiles");
    h.push(3);
    let mut pos = 127u64;
    let mut fields: Vec<u64> = Vec::new();
    for s in [&rootz, &meta, &leaf, &data] {
        fields.push(pos);
        fields.push(s.len() as u64);
        pos += s.len() as u64;
    }
    fields.extend([1, 1, 1]);
    let names = ["root_off", "root_len", "meta_off", "meta_len", "leaf_off", "leaf_len", "data_off", "data_len", "n_addr", "n_ent", "n_cont"];
    for (k, name) in names.iter().enumerate() {
        if let Some(v) = patch.get(*name) {
            fields[k] = from_limbs(v);
        }
    }
    for f in &fields {
        h.extend_from_slice(&f.to_le_bytes());
    }
    h.extend_from_slice(&[1, ic, 1, 1, 0, 3]);
    h.extend_from_slice(&[0u8; 16]);
    h.push(0);
    h.extend_from_slice(&[0u8; 8]);
    assert_eq!(h.len(), 127);
    h.extend_from_slice(&rootz);
    h.extend_from_slice(&meta);
    h.extend_from_slice(&leaf);
    h.extend_from_slice(&data);
    h
}

fn base_archives(rng: &mut Rng) -> Vec<(String, Vec<u8>)> {
    let t = |id: u64, run: u64, len: u64, off: u64| Node::Tile(HEntry { id, run, len, off });
    let mk = |root: Vec<Node>, ic: u8, rng: &mut Rng| {
        assemble(&Layout {
            ic,
            order: [0, 1, 2, 3],
            gap: 0,
            root,
            meta: b"{\"a\":1}".to_vec(),
            data: rng.bytes(24),
            clustered: true,
            small: [1, 1, 0, 3, 1],
            coords: [-10, -10, 10, 10, 0, 0],
            leaves_reversed: false,
        })
    };
    vec![
        ("empty".to_string(), mk(vec![], 1, rng)),
        ("one_tile".to_string(), mk(vec![t(5, 1, 4, 0)], 1, rng)),
        ("runs_dedup".to_string(), mk(vec![t(1, 3, 4, 0), t(9, 1, 6, 4), t(10, 2, 4, 0), t(300, 1, 5, 10)], 1, rng)),
        ("nested".to_string(), mk(vec![Node::Leaf(vec![t(1, 1, 3, 0), Node::Leaf(vec![t(4, 2, 3, 3)])]), Node::Leaf(vec![t(20, 1, 2, 6)])], 1, rng)),
        ("runs_dedup_gzip".to_string(), mk(vec![t(1, 3, 4, 0), t(9, 1, 6, 4), t(10, 2, 4, 0)], 2, rng)),
    ]
}

pub fn drive(seed: u64, tier: &str, stim: Option<&str>, stim2: Option<&str>, workdir: &str, out: &mut Out) {
    let mut rng = Rng::new(seed ^ 0x4d414c);
    let mut inputs: Vec<Input> = Vec::new();
    // 0. exhaustive small scope enumerated by TLC: directories of 1-2 entries over boundary tokens (strided in quick)
    if let Some(p) = stim2 {
        let stride = if tier == "thorough" { 1 } else { 9 };
        for (i, line) in std::fs::read_to_string(p).expect("stim2").lines().enumerate() {
            if (i as u64 + seed) % stride != 0 {
                continue;
            }
            let Ok(v) = serde_json::from_str::<Value>(line) else { continue };
            let root = json_bytes(&v["root"]);
            let leaves: Vec<Vec<u8>> = v["leaves"].as_array().map_or(vec![], |a| a.iter().map(json_bytes).collect());
            let plain = plain_archive(&root, &leaves, 1, &json!({}));
            inputs.push(Input { class: "tokens".to_string(), bytes: plain.clone(), plain: Some(plain) });
        }
    }
    // 1. one crafted archive per hazard class (TLC-composed directory bytes)
    if let Some(p) = stim {
        for line in std::fs::read_to_string(p).expect("stim").lines() {
            let Ok(v) = serde_json::from_str::<Value>(line) else { continue };
            let class = v["class"].as_str().unwrap_or("?").to_string();
            let root = json_bytes(&v["root"]);
            let leaves: Vec<Vec<u8>> = v["leaves"].as_array().map_or(vec![], |a| a.iter().map(json_bytes).collect());
            let plain = plain_archive(&root, &leaves, 1, &v["patch"]);
            inputs.push(Input { class: format!("hazard/{class}"), bytes: plain.clone(), plain: Some(plain.clone()) });
            if leaves.is_empty() {
                for ic in 2u8..=4 {
                    inputs.push(Input { class: format!("hazard/{class}/c{ic}"), bytes: plain_archive(&root, &leaves, ic, &v["patch"]), plain: Some(plain.clone()) });
                }
            }
        }
    }
    // 1b. a very long acyclic chain of leaf pointers (each leaf 12 bytes, pointing to the next)
    for links in [if tier == "thorough" { 120_000usize } else { 40_000 }] {
        let leaf_len = 12usize;
        let mut leaves: Vec<Vec<u8>> = Vec::with_capacity(links);
        for j in 0..links {
            let mut l = if j + 1 == links {
                hint_encode_dir(&[HEntry { id: 5, run: 1, len: 4, off: 0 }])
            } else {
                hint_encode_dir(&[HEntry { id: 5, run: 0, len: leaf_len as u64, off: ((j + 1) * leaf_len) as u64 }])
            };
            l.resize(leaf_len, 0);
            leaves.push(l);
        }
        let root = hint_encode_dir(&[HEntry { id: 5, run: 0, len: leaf_len as u64, off: 0 }]);
        let plain = plain_archive(&root, &leaves, 1, &json!({}));
        inputs.push(Input { class: format!("hazard/chain_of_{links}_leaves"), bytes: plain.clone(), plain: Some(plain) });
    }
    // 2. every prefix and every single-byte boundary substitution of small valid archives
    for (name, b) in base_archives(&mut rng) {
        let is_plain = b[97] == 1;
        let stride = if tier == "thorough" || is_plain { 1 } else { 2 };
        for k in (0..b.len()).step_by(stride) {
            let p = b[..k].to_vec();
            inputs.push(Input { class: format!("prefix/{name}"), plain: if is_plain { Some(p.clone()) } else { None }, bytes: p });
        }
        for pos in 0..b.len() {
            for v in [0x00u8, 0x01, 0x7f, 0x80, 0xff] {
                if b[pos] == v || (!is_plain && (pos + v as usize) % 3 != 0 && tier != "thorough") {
                    continue;
                }
                let mut m = b.clone();
                m[pos] = v;
                inputs.push(Input { class: format!("subst/{name}"), plain: if is_plain { Some(m.clone()) } else { None }, bytes: m });
            }
        }
    }
    // 3. structure-aware random mutations: varint / header fields -> boundary values, splices, truncations
    let n_rand = if tier == "thorough" { 20_000 } else { 1500 };
    let bases = base_archives(&mut rng);
    let bounds = [0u64, 1, 127, 128, 16384, (1 << 32) - 1, 1 << 32, (1 << 62) + 5, u64::MAX - 1, u64::MAX];
    for _ in 0..n_rand {
        let (name, b) = rng.pick(&bases).clone();
        let mut m = b.clone();
        match rng.below(4) {
            0 => {
                let f = 8 + 8 * rng.below(11) as usize;
                m[f..f + 8].copy_from_slice(&rng.pick(&bounds).to_le_bytes());
            }
            1 => {
                // replace one byte of the directory area by a multi-byte varint of a boundary value
                let pos = 127 + rng.below((m.len() - 127) as u64) as usize;
                let mut v = Vec::new();
                let mut x = *rng.pick(&bounds);
                while x >= 0x80 {
                    v.push((x as u8) | 0x80);
                    x >>= 7;
                }
                v.push(x as u8);
                m.splice(pos..pos + 1, v);
            }
            2 => {
                let a = rng.below(m.len() as u64) as usize;
                let l = rng.below(12) as usize;
                let src = rng.below(m.len() as u64) as usize;
                let chunk: Vec<u8> = m[src..(src + l).min(m.len())].to_vec();
                m.splice(a..a, chunk);
            }
            _ => {
                let k = rng.below(m.len() as u64) as usize;
                m.truncate(k);
                let extra = rng.below(4) as usize;
                m.extend(rng.bytes(extra));
            }
        }
        let is_plain = m.len() > 97 && m[97] == 1;
        inputs.push(Input { class: format!("random/{name}"), plain: if is_plain { Some(m.clone()) } else { None }, bytes: m });
    }

    // run: skipped inputs are those the pre-filter finds over budget
    let skipped: Vec<bool> = inputs.iter().map(|i| i.plain.as_ref().map_or(false, |p| declared_work(p) > BUDGET)).collect();
    let in_path = format!("{workdir}/mal_inputs.ndjson");
    let out_path = format!("{workdir}/mal_outcomes.ndjson");
    {
        let mut f = std::io::BufWriter::new(std::fs::File::create(&in_path).expect("inputs file"));
        for (i, inp) in inputs.iter().enumerate() {
            let b: &[u8] = if skipped[i] { &[] } else { &inp.bytes };
            writeln!(f, "{}", bytes_json(b)).expect("write");
        }
    }
    let _ = std::fs::remove_file(&out_path);
    let mut outcomes: Vec<Vec<Value>> = vec![Vec::new(); inputs.len()];
    let mut start = 0usize;
    let mut respawns = 0u64;
    let exe = std::env::current_exe().expect("exe");
    while start < inputs.len() {
        let before = std::fs::metadata(&out_path).map_or(0, |m| m.len());
        let mut child = std::process::Command::new("sh")
            .arg("-c")
            .arg("ulimit -v 16777216; exec \"$0\" worker \"$1\" \"$2\" \"$3\" 0")
            .arg(&exe)
            .arg(&in_path)
            .arg(&out_path)
            .arg(start.to_string())
            .stderr(std::process::Stdio::null())
            .spawn()
            .expect("spawn worker");
        // progress timeout: the outcomes file must keep growing
        let mut last_len = before;
        let mut idle = 0u32;
        let status = loop {
            match child.try_wait().expect("wait") {
                Some(st) => break Some(st),
                None => {
                    std::thread::sleep(std::time::Duration::from_millis(50));
                    let l = std::fs::metadata(&out_path).map_or(0, |m| m.len());
                    if l == last_len {
                        idle += 1;
                    } else {
                        idle = 0;
                        last_len = l;
                    }
                    if idle > 400 {
                        let _ = child.kill();
                        let _ = child.wait();
                        break None;
                    }
                }
            }
        };
        // parse everything written so far from `start`
        let text = std::fs::read_to_string(&out_path).unwrap_or_default();
        let mut open_call: Option<(usize, String)> = None;
        let mut done_upto = start;
        for line in text.lines() {
            let Ok(v) = serde_json::from_str::<Value>(line) else { continue };
            let i = v["i"].as_u64().unwrap_or(0) as usize;
            if i < start {
                continue;
            }
            let kind = v["kind"].as_str().unwrap_or("");
            let call = v["call"].as_str().unwrap_or("").to_string();
            match kind {
                "started" => open_call = Some((i, call)),
                "input_done" => {
                    done_upto = i + 1;
                    open_call = None;
                }
                _ => {
                    outcomes[i].push(json!({"call": call, "kind": kind}));
                    open_call = None;
                }
            }
        }
        let clean = status.map_or(false, |s| s.success());
        if clean {
            break;
        }
        respawns += 1;
        // the worker died: attribute it to the call that was running
        let how = match status {
            None => "timeout",
            Some(s) => {
                use std::os::unix::process::ExitStatusExt;
                if s.signal().is_some() { "signal" } else { "abort" }
            }
        };
        match open_call {
            Some((i, call)) => {
                outcomes[i].push(json!({"call": call, "kind": how}));
                start = i + 1;
            }
            None => start = done_upto.max(start + 1),
        }
        if respawns > 400 {
            break;
        }
    }
    let mut crashed = 0u64;
    for (i, inp) in inputs.iter().enumerate() {
        let mut ev = json!({"ev": "Mal", "class": inp.class, "skipped": skipped[i], "len": inp.bytes.len(),
                            "outcomes": outcomes[i].clone()});
        if let Some(p) = &inp.plain {
            ev["plain"] = bytes_json(p);
        }
        if inp.plain.as_deref() != Some(&inp.bytes[..]) {
            ev["bytes"] = bytes_json(&inp.bytes);
        }
        if outcomes[i].iter().any(|o| !matches!(o["kind"].as_str(), Some("ok" | "err"))) {
            crashed += 1;
        }
        out.emit(ev);
    }
    println!("stat malformed_inputs={}", inputs.len());
    println!("stat malformed_inputs_skipped_over_budget={}", skipped.iter().filter(|s| **s).count());
    println!("stat worker_respawns={respawns}");
    println!("stat inputs_with_a_call_that_did_not_return={crashed}");
    let _ = std::fs::remove_file(&in_path);
}
