//! Transport-level dissection of archive bytes, settings, and shared helpers for the
//! archive-level drivers.  Nothing here decides validity: the dissection is a set of hints that
//! TLC verifies against the raw bytes (Directory!ParsesTo, Archive!TilesAreResolution).

use crate::util::*;
use pmtiles2::PMTiles;
use serde_json::{json, Map as JSONMap, Value};

#[derive(Clone, Debug)]
pub struct HEntry {
    pub id: u64,
    pub run: u64,
    pub len: u64,
    pub off: u64,
}

pub fn hentry_json(e: &HEntry) -> Value {
    json!({"id": limbs(e.id), "run": limbs(e.run), "len": limbs(e.len), "off": limbs(e.off)})
}

fn read_varint(raw: &[u8], pos: &mut usize) -> Option<u64> {
    let mut v: u64 = 0;
    let mut shift = 0u32;
    loop {
        let b = *raw.get(*pos)?;
        *pos += 1;
        if shift >= 64 || (shift == 63 && (b & 0x7f) > 1) {
            return None;
        }
        v |= u64::from(b & 0x7f) << shift;
        shift += 7;
        if b & 0x80 == 0 {
            return Some(v);
        }
        if shift > 63 {
            return None;
        }
    }
}

/// Hint decoder for an uncompressed directory (verified by TLC; a wrong hint is rejected there).
pub fn hint_decode_dir(raw: &[u8]) -> Option<Vec<HEntry>> {
    let mut pos = 0usize;
    let n = read_varint(raw, &mut pos)? as usize;
    if n > raw.len() {
        return None;
    }
    let mut es = vec![HEntry { id: 0, run: 0, len: 0, off: 0 }; n];
    let mut last = 0u64;
    for e in es.iter_mut() {
        last = last.checked_add(read_varint(raw, &mut pos)?)?;
        e.id = last;
    }
    for e in es.iter_mut() {
        e.run = read_varint(raw, &mut pos)?;
    }
    for e in es.iter_mut() {
        e.len = read_varint(raw, &mut pos)?;
    }
    for i in 0..n {
        let c = read_varint(raw, &mut pos)?;
        es[i].off = if c == 0 && i > 0 {
            es[i - 1].off.checked_add(es[i - 1].len)?
        } else {
            c.checked_sub(1)?
        };
    }
    Some(es)
}

fn le64(b: &[u8], off: usize) -> u64 {
    u64::from_le_bytes(b[off..off + 8].try_into().expect("8 bytes"))
}

fn slice<'a>(b: &'a [u8], off: u64, len: u64) -> Option<&'a [u8]> {
    let end = off.checked_add(len)?;
    if end as usize > b.len() || end > b.len() as u64 {
        return None;
    }
    Some(&b[off as usize..end as usize])
}

pub struct Dissector<'a> {
    pub toks: &'a mut Interner,
    pub metas: &'a mut Interner,
}

pub fn canonical_meta(v: &Value) -> Vec<u8> {
    serde_json::to_vec(v).expect("serialise meta")
}

pub fn json_kind(v: &Value) -> &'static str {
    match v {
        Value::Object(_) => "object",
        Value::Array(_) => "array",
        Value::String(_) => "string",
        Value::Number(_) => "number",
        Value::Bool(_) => "bool",
        Value::Null => "null",
    }
}

impl Dissector<'_> {
    /// File record for Archive.tla.  `with_raw = false` omits nothing: raw is always needed.
    pub fn dissect(&mut self, bytes: &[u8]) -> Value {
        if bytes.len() < 127 {
            return json!({"hdr": bytes_json(bytes), "flen": limbs(bytes.len() as u64), "undissectable": "short"});
        }
        let hdr = &bytes[..127];
        let ic = hdr[97];
        let (root_off, root_len) = (le64(hdr, 8), le64(hdr, 16));
        let (meta_off, meta_len) = (le64(hdr, 24), le64(hdr, 32));
        let leaf_off = le64(hdr, 40);
        let data_off = le64(hdr, 56);
        let mut f = json!({"hdr": bytes_json(hdr), "flen": limbs(bytes.len() as u64)});
        let fail = |mut f: Value, why: &str| {
            f["undissectable"] = json!(why);
            f
        };
        // metadata
        f["meta"] = if meta_len == 0 {
            json!({"kind": "empty", "tok": 0})
        } else {
            match slice(bytes, meta_off, meta_len).and_then(|s| up_decompress(ic, s).ok()) {
                None => json!({"kind": "undecodable", "tok": 0}),
                Some(raw) => match serde_json::from_slice::<Value>(&raw) {
                    Err(_) => json!({"kind": "invalid", "tok": 0}),
                    Ok(v) => json!({"kind": json_kind(&v), "tok": self.metas.tok(&canonical_meta(&v))}),
                },
            }
        };
        // root directory
        let Some(root_raw) = slice(bytes, root_off, root_len).and_then(|s| up_decompress(ic, s).ok()) else {
            return fail(f, "root_undecodable");
        };
        let Some(root_entries) = hint_decode_dir(&root_raw) else {
            f["root"] = json!({"raw": bytes_json(&root_raw), "entries": []});
            return fail(f, "root_unparsable");
        };
        f["root"] = json!({"raw": bytes_json(&root_raw),
                           "entries": Value::Array(root_entries.iter().map(hentry_json).collect())});
        // leaves: distinct (off, len), any depth up to 4
        let mut leaves: Vec<(u64, u64, Vec<u8>, Vec<HEntry>)> = Vec::new();
        let mut tiles: Vec<Value> = Vec::new();
        let mut problem: Option<String> = None;
        self.walk(bytes, ic, leaf_off, data_off, &root_entries, 1, &mut leaves, &mut tiles, &mut problem);
        f["leaves"] = Value::Array(
            leaves
                .iter()
                .map(|(o, l, raw, es)| {
                    json!({"off": limbs(*o), "len": limbs(*l), "raw": bytes_json(raw),
                           "entries": Value::Array(es.iter().map(hentry_json).collect())})
                })
                .collect(),
        );
        f["tiles"] = Value::Array(tiles);
        if let Some(p) = problem {
            return fail(f, &p);
        }
        f
    }

    #[allow(clippy::too_many_arguments)]
    fn walk(
        &mut self,
        bytes: &[u8],
        ic: u8,
        leaf_off: u64,
        data_off: u64,
        entries: &[HEntry],
        depth: u32,
        leaves: &mut Vec<(u64, u64, Vec<u8>, Vec<HEntry>)>,
        tiles: &mut Vec<Value>,
        problem: &mut Option<String>,
    ) {
        if depth > 4 {
            *problem = Some("too_deep".into());
            return;
        }
        for e in entries {
            if problem.is_some() || tiles.len() > 2_000_000 {
                return;
            }
            if e.run == 0 {
                let known = leaves.iter().position(|(o, l, _, _)| *o == e.off && *l == e.len);
                let es = if let Some(k) = known {
                    leaves[k].3.clone()
                } else {
                    let Some(raw) = leaf_off
                        .checked_add(e.off)
                        .and_then(|o| slice(bytes, o, e.len))
                        .and_then(|s| up_decompress(ic, s).ok())
                    else {
                        *problem = Some("leaf_undecodable".into());
                        return;
                    };
                    let Some(es) = hint_decode_dir(&raw) else {
                        *problem = Some("leaf_unparsable".into());
                        return;
                    };
                    leaves.push((e.off, e.len, raw, es.clone()));
                    es
                };
                self.walk(bytes, ic, leaf_off, data_off, &es, depth + 1, leaves, tiles, problem);
            } else {
                let tok = data_off
                    .checked_add(e.off)
                    .and_then(|o| slice(bytes, o, e.len))
                    .map_or(0, |s| self.toks.tok(s));
                tiles.push(json!({"id": limbs(e.id), "run": limbs(e.run), "len": limbs(e.len),
                                  "off": limbs(e.off), "tok": tok}));
            }
        }
    }
}

// ------------------------------------------------------------------------------------------
#[derive(Clone, Debug)]
pub struct Settings {
    pub ic: u8,
    pub tc: u8,
    pub tt: u8,
    pub minz: u8,
    pub maxz: u8,
    pub cz: u8,
    pub coords: [f64; 6],
    pub meta: JSONMap<String, Value>,
}

impl Settings {
    pub fn default_for(tt: u8, tc: u8) -> Self {
        Settings { ic: 2, tc, tt, minz: 0, maxz: 0, cz: 0, coords: [0.0; 6], meta: JSONMap::new() }
    }

    pub fn random(rng: &mut Rng, ic: u8) -> Self {
        let mut coords = [0.0f64; 6];
        for (k, c) in coords.iter_mut().enumerate() {
            let lim = if k % 2 == 0 { 180.0 } else { 90.0 };
            *c = match rng.below(5) {
                0 => 0.0,
                1 => (rng.below(3_600_000_001) as i64 - 1_800_000_000) as f64 / 1e7 * lim / 180.0,
                2 => (rng.next() as f64 / u64::MAX as f64 * 2.0 - 1.0) * lim,
                3 => *rng.pick(&[lim, -lim, 1e-7, -1e-7, 2.1e-6, -2.1e-6, 0.1, 11.2548828]),
                _ => ((rng.below(2_000_000) as f64) + 0.25) / 1e7,
            };
            if c.abs() > lim {
                *c = lim;
            }
        }
        Settings {
            ic,
            tc: rng.below(5) as u8,
            tt: rng.below(6) as u8,
            minz: rng.next() as u8,
            maxz: rng.next() as u8,
            cz: rng.next() as u8,
            coords,
            meta: random_meta(rng, 0),
        }
    }

    pub fn apply<R>(&self, pm: &mut PMTiles<R>) {
        pm.internal_compression = comp_of(self.ic);
        pm.tile_compression = comp_of(self.tc);
        pm.tile_type = tt_of(self.tt);
        pm.min_zoom = self.minz;
        pm.max_zoom = self.maxz;
        pm.center_zoom = self.cz;
        pm.min_longitude = self.coords[0];
        pm.min_latitude = self.coords[1];
        pm.max_longitude = self.coords[2];
        pm.max_latitude = self.coords[3];
        pm.center_longitude = self.coords[4];
        pm.center_latitude = self.coords[5];
        pm.meta_data = self.meta.clone();
    }

    pub fn cfg_json(&self, metas: &mut Interner) -> Value {
        let coords: Vec<Value> = self
            .coords
            .iter()
            .map(|d| {
                let (fl, cmp) = crate::codec::e7_exact(*d).expect("coordinate in range");
                json!({"fl": fl, "cmp": cmp})
            })
            .collect();
        json!({"ic": self.ic, "tc": self.tc, "tt": self.tt, "minz": self.minz, "maxz": self.maxz,
               "cz": self.cz, "coords": coords,
               "meta": metas.tok(&canonical_meta(&Value::Object(self.meta.clone())))})
    }
}

pub fn random_meta(rng: &mut Rng, depth: u32) -> JSONMap<String, Value> {
    let mut m = JSONMap::new();
    let n = rng.below(if depth == 0 { 5 } else { 3 });
    for _ in 0..n {
        let key = match rng.below(4) {
            0 => "name".to_string(),
            1 => format!("k{}", rng.below(50)),
            2 => "ünï\"\\ cødé\n".to_string(),
            _ => String::new(),
        };
        m.insert(key, random_json(rng, depth + 1));
    }
    // real archives carry kilobytes of metadata (vector_layers, tilestats): one in six is large, with sizes around the
    // powers of two a reader might pick as a buffer size
    if depth == 0 && rng.chance(1, 6) {
        let len = *rng.pick(&[2040usize, 2049, 4096, 8193, 20_000, 66_000]);
        let unit = "{\"id\":\"layer\",\"fields\":{\"name\":\"String\"}},";
        let text: String = unit.chars().cycle().take(len).collect();
        m.insert("vector_layers".to_string(), json!(text));
    }
    m
}

fn random_json(rng: &mut Rng, depth: u32) -> Value {
    match rng.below(if depth >= 3 { 6 } else { 8 }) {
        0 => Value::Null,
        1 => json!(rng.chance(1, 2)),
        2 => json!(rng.next() as i64),
        3 => json!(rng.next()),
        4 => json!((rng.below(4001) as f64 - 2000.0) / 8.0),
        5 => json!(format!("s{}<a href=\"x\">é</a>", rng.below(100))),
        6 => Value::Array((0..rng.below(4)).map(|_| random_json(rng, depth + 1)).collect()),
        _ => Value::Object(random_meta(rng, depth)),
    }
}


// ------------------------------------------------------------------------------------------
// Assembler: builds archive bytes from an abstract layout (the "other writer" of C03/C19/C08).
// It is not trusted: every assembled file goes back through Archive!WellFormedForeign in TLC.

#[derive(Clone, Debug)]
pub enum Node {
    Tile(HEntry),
    Leaf(Vec<Node>),
}

#[derive(Clone, Debug)]
pub struct Layout {
    pub ic: u8,
    /// order in which root(0), meta(1), leaves(2), data(3) follow the header
    pub order: [u8; 4],
    /// 0 = none, 1 = 3 padding bytes between sections, 2 = trailing bytes after the last section
    pub gap: u8,
    pub root: Vec<Node>,
    /// raw (uncompressed) metadata; empty = zero-length section
    pub meta: Vec<u8>,
    pub data: Vec<u8>,
    pub clustered: bool,
    pub small: [u8; 5], // tc, tt, minz, maxz, cz
    pub coords: [i32; 6],
    /// place leaves in reverse order inside the leaf section (non-monotone pointer offsets)
    pub leaves_reversed: bool,
}

fn put_varint(out: &mut Vec<u8>, mut v: u64) {
    while v >= 0x80 {
        out.push((v as u8) | 0x80);
        v >>= 7;
    }
    out.push(v as u8);
}

pub fn hint_encode_dir(es: &[HEntry]) -> Vec<u8> {
    let mut out = Vec::new();
    put_varint(&mut out, es.len() as u64);
    let mut last = 0u64;
    for e in es {
        put_varint(&mut out, e.id.wrapping_sub(last));
        last = e.id;
    }
    for e in es {
        put_varint(&mut out, e.run);
    }
    for e in es {
        put_varint(&mut out, e.len);
    }
    for (i, e) in es.iter().enumerate() {
        if i > 0 && es[i - 1].off.checked_add(es[i - 1].len) == Some(e.off) {
            put_varint(&mut out, 0);
        } else {
            put_varint(&mut out, e.off.wrapping_add(1));
        }
    }
    out
}

fn first_id(nodes: &[Node]) -> u64 {
    match nodes.first() {
        Some(Node::Tile(e)) => e.id,
        Some(Node::Leaf(c)) => first_id(c),
        None => 0,
    }
}

/// Two-pass construction: leaves are compressed bottom-up; since a parent's bytes depend on the
/// offsets of its children, offsets are assigned in creation order (children before parents).
fn build_tree(nodes: &[Node], ic: u8, section: &mut Vec<(Vec<u8>, u64)>, next_off: &mut u64, reversed_total: Option<u64>) -> Vec<HEntry> {
    let mut es = Vec::new();
    for n in nodes {
        match n {
            Node::Tile(e) => es.push(e.clone()),
            Node::Leaf(children) => {
                let child = build_tree(children, ic, section, next_off, reversed_total);
                let raw = hint_encode_dir(&child);
                let z = up_compress(ic, &raw).expect("compress leaf");
                let len = z.len() as u64;
                let off = *next_off;
                *next_off += len;
                section.push((z, off));
                es.push(HEntry { id: first_id(children), run: 0, len, off });
            }
        }
    }
    let _ = reversed_total;
    es
}

pub fn count_tiles(nodes: &[Node], addr: &mut u64, ent: &mut u64, offs: &mut std::collections::BTreeSet<u64>) {
    for n in nodes {
        match n {
            Node::Tile(e) => {
                *addr += e.run;
                *ent += 1;
                offs.insert(e.off);
            }
            Node::Leaf(c) => count_tiles(c, addr, ent, offs),
        }
    }
}

pub fn assemble(l: &Layout) -> Vec<u8> {
    let mut section: Vec<(Vec<u8>, u64)> = Vec::new();
    let mut next = 0u64;
    let root_entries = build_tree(&l.root, l.ic, &mut section, &mut next, None);
    let mut leaf_bytes = Vec::new();
    for (z, off) in &section {
        assert_eq!(*off as usize, leaf_bytes.len());
        leaf_bytes.extend_from_slice(z);
    }
    let root_z = up_compress(l.ic, &hint_encode_dir(&root_entries)).expect("compress root");
    let meta_z = if l.meta.is_empty() { Vec::new() } else { up_compress(l.ic, &l.meta).expect("compress meta") };
    let secs: [&Vec<u8>; 4] = [&root_z, &meta_z, &leaf_bytes, &l.data];
    let mut pos = 127u64;
    let mut offs = [0u64; 4];
    let mut body = Vec::new();
    for (k, &s) in l.order.iter().enumerate() {
        if l.gap == 1 && k > 0 {
            body.extend_from_slice(&[0xEE, 0xEE, 0xEE]);
            pos += 3;
        }
        offs[s as usize] = pos;
        body.extend_from_slice(secs[s as usize]);
        pos += secs[s as usize].len() as u64;
    }
    if l.gap == 2 {
        body.extend_from_slice(&[0xDD; 5]);
    }
    let (mut addr, mut ent) = (0u64, 0u64);
    let mut distinct = std::collections::BTreeSet::new();
    count_tiles(&l.root, &mut addr, &mut ent, &mut distinct);
    let mut h = Vec::with_capacity(127);
    h.extend_from_slice(b"PMTiles");
    h.push(3);
    for (s, len) in [(0usize, root_z.len()), (1, meta_z.len()), (2, leaf_bytes.len()), (3, l.data.len())] {
        h.extend_from_slice(&offs[s].to_le_bytes());
        h.extend_from_slice(&(len as u64).to_le_bytes());
    }
    h.extend_from_slice(&addr.to_le_bytes());
    h.extend_from_slice(&ent.to_le_bytes());
    h.extend_from_slice(&(distinct.len() as u64).to_le_bytes());
    h.push(u8::from(l.clustered));
    h.push(l.ic);
    h.push(l.small[0]);
    h.push(l.small[1]);
    h.push(l.small[2]);
    h.push(l.small[3]);
    for c in &l.coords[0..4] {
        h.extend_from_slice(&c.to_le_bytes());
    }
    h.push(l.small[4]);
    for c in &l.coords[4..6] {
        h.extend_from_slice(&c.to_le_bytes());
    }
    assert_eq!(h.len(), 127);
    h.extend_from_slice(&body);
    h
}
