//! Drivers for the wire codecs: directories (C05, C19 zero-length), headers (C09).
//! Each case is one event; TLC recomputes the v3 encoding / decoding and judges it.

use crate::util::*;
use pmtiles2::{Directory, Entry, Header};
use serde_json::{json, Value};
use std::io::Cursor;

pub const FIRST_INVALID_ID: u64 = 0x5555_5555_5555_5555;

pub fn entry_json(e: &Entry) -> Value {
    json!({"id": limbs(e.tile_id), "run": limbs(u64::from(e.run_length)),
           "len": limbs(u64::from(e.length)), "off": limbs(e.offset)})
}

pub fn entries_json(es: &[Entry]) -> Value {
    Value::Array(es.iter().map(entry_json).collect())
}

pub fn json_entries(v: &Value) -> Vec<Entry> {
    v.as_array()
        .expect("entries")
        .iter()
        .map(|e| Entry {
            tile_id: from_limbs(&e["id"]),
            run_length: from_limbs(&e["run"]) as u32,
            length: from_limbs(&e["len"]) as u32,
            offset: from_limbs(&e["off"]),
        })
        .collect()
}

/// Random valid directory: ascending IDs, non-overlapping runs, len >= 1, every offset mode.
pub fn gen_valid_dir(rng: &mut Rng, n: usize, wide: bool) -> Vec<Entry> {
    let mut out = Vec::with_capacity(n);
    // leave room so that ids never leave the valid domain
    let budget = FIRST_INVALID_ID - 1;
    let mut next_id: u64 = if wide { rng.magnitude(40) } else { rng.below(300) };
    let mut prev: Option<Entry> = None;
    for i in 0..n {
        let remaining = (n - i) as u64;
        let gap = match rng.below(10) {
            0..=5 => 0,
            6 => 1,
            7 => rng.below(300),
            8 => rng.magnitude(if wide { 44 } else { 16 }),
            _ => 127 + rng.below(3),
        };
        let mut id = next_id.saturating_add(gap);
        let run: u32 = match rng.below(12) {
            0 => 0,
            1..=6 => 1,
            7 => 2,
            8 => 1 + rng.below(300) as u32,
            9 => 127 + rng.below(3) as u32,
            10 => {
                if wide {
                    rng.magnitude(32) as u32
                } else {
                    rng.below(70000) as u32
                }
            }
            _ => {
                if wide && rng.chance(1, 4) {
                    u32::MAX
                } else {
                    3
                }
            }
        };
        let span = u64::from(run.max(1));
        // keep room for the remaining entries
        let cap = budget - remaining * (u64::from(u32::MAX) + 2);
        if id > cap {
            id = cap;
        }
        if id < next_id {
            id = next_id;
        }
        let len: u32 = match rng.below(8) {
            0 => 1,
            1 => 127 + rng.below(3) as u32,
            2 => 16383 + rng.below(3) as u32,
            3 => {
                if wide {
                    u32::MAX - rng.below(2) as u32
                } else {
                    70000
                }
            }
            4 => rng.magnitude(32).max(1) as u32,
            _ => 1 + rng.below(5000) as u32,
        };
        let off: u64 = match (&prev, rng.below(10)) {
            (None, 0) => 0,
            (None, 1) => 1,
            (None, 2) => 1u64 << 62,
            (None, _) => rng.magnitude(34),
            (Some(p), 0..=4) => p.offset + u64::from(p.length), // contiguous
            (Some(p), 5) => p.offset,                            // dedup / equal to previous
            (Some(p), 6) => rng.below(p.offset + 1),             // back reference
            (Some(p), 7) => p.offset + u64::from(p.length) + 1 + rng.below(3), // gap
            (Some(_), 8) => (1u64 << 62) - rng.below(3),
            (Some(_), _) => {
                if rng.chance(1, 2) {
                    0
                } else {
                    rng.magnitude(50)
                }
            }
        };
        let e = Entry { tile_id: id, run_length: run, length: len, offset: off };
        next_id = id + span;
        prev = Some(e);
        out.push(e);
    }
    out
}

struct DirCase {
    entries: Vec<Entry>,
    kind: &'static str,
}

fn run_dir_case(case: &DirCase, comps: &[u8], out: &mut Out) {
    let dir = Directory::from(case.entries.clone());
    let mut blobs = Interner::default();
    let mut lists: Vec<Vec<Entry>> = Vec::new();
    let mut list_ix = |l: Vec<Entry>| -> usize {
        if let Some(p) = lists.iter().position(|x| *x == l) {
            p + 1
        } else {
            lists.push(l);
            lists.len()
        }
    };
    let mut enc = Vec::new();
    let mut dec = Vec::new();
    for &c in comps {
        let comp = comp_of(c);
        for mode in ["sync", "async"] {
            // ---- serialise
            let d = dir.clone();
            let r = guard(|| {
                let mut buf = Vec::<u8>::new();
                let r = if mode == "sync" {
                    d.to_writer(&mut buf, comp)
                } else {
                    let mut cur = futures::io::Cursor::new(Vec::<u8>::new());
                    let r = block_on(d.to_async_writer(&mut cur, comp));
                    buf = cur.into_inner();
                    r
                };
                r.map(|()| buf)
            });
            let mut o = json!({"comp": c, "mode": mode, "res": res_tag(&r)});
            let mut lib_bytes: Option<Vec<u8>> = None;
            if let Ok(Ok(b)) = &r {
                match up_decompress(c, b) {
                    Ok(raw) => {
                        o["blob"] = json!(blobs.tok(&raw));
                        lib_bytes = Some(b.clone());
                    }
                    Err(_) => o["res"] = json!("undecodable"),
                }
            }
            enc.push(o);
            // ---- parse: the library's own output, and an upstream-compressed copy of it
            let mut inputs: Vec<(&str, Vec<u8>)> = Vec::new();
            if let Some(b) = lib_bytes {
                if let Ok(raw) = up_decompress(c, &b) {
                    if c != 1 {
                        if let Ok(z) = up_compress(c, &raw) {
                            inputs.push(("up", z));
                        }
                    }
                }
                inputs.push(("lib", b));
            }
            for (src, bytes) in inputs {
                for api in ["from_bytes", "from_reader"] {
                    if mode == "async" && api == "from_bytes" {
                        continue;
                    }
                    let r = guard(|| {
                        if mode == "sync" {
                            if api == "from_bytes" {
                                Directory::from_bytes(&bytes, comp)
                            } else {
                                let mut cur = Cursor::new(&bytes);
                                Directory::from_reader(&mut cur, bytes.len() as u64, comp)
                            }
                        } else {
                            let mut cur = futures::io::Cursor::new(&bytes);
                            block_on(Directory::from_async_reader(&mut cur, bytes.len() as u64, comp))
                        }
                    });
                    let mut o = json!({"comp": c, "mode": mode, "api": api, "src": src, "res": res_tag(&r)});
                    if let Ok(Ok(d)) = r {
                        o["list"] = json!(list_ix(Vec::<Entry>::from(d)));
                    }
                    dec.push(o);
                }
            }
        }
    }
    out.emit(json!({
        "ev": "Dir", "kind": case.kind, "entries": entries_json(&case.entries),
        "blobs": Value::Array(blobs.items.iter().map(|b| bytes_json(b)).collect()),
        "lists": Value::Array(lists.iter().map(|l| entries_json(l)).collect()),
        "enc": enc, "dec": dec,
    }));
}

/// Parse given raw bytes (an encoding computed by TLC): B1 direction.
fn run_raw_case(entries: &[Entry], raw: &[u8], comps: &[u8], out: &mut Out) {
    let mut lists: Vec<Vec<Entry>> = Vec::new();
    let mut dec = Vec::new();
    for &c in comps {
        let comp = comp_of(c);
        let Ok(bytes) = up_compress(c, raw) else { continue };
        for mode in ["sync", "async"] {
            let r = guard(|| {
                if mode == "sync" {
                    Directory::from_bytes(&bytes, comp)
                } else {
                    let mut cur = futures::io::Cursor::new(&bytes);
                    block_on(Directory::from_async_reader(&mut cur, bytes.len() as u64, comp))
                }
            });
            let mut o = json!({"comp": c, "mode": mode, "res": res_tag(&r)});
            if let Ok(Ok(d)) = r {
                let l = Vec::<Entry>::from(d);
                let ix = if let Some(p) = lists.iter().position(|x| *x == l) {
                    p + 1
                } else {
                    lists.push(l);
                    lists.len()
                };
                o["list"] = json!(ix);
            }
            dec.push(o);
        }
    }
    out.emit(json!({
        "ev": "DirRaw", "entries": entries_json(entries), "raw": bytes_json(raw),
        "lists": Value::Array(lists.iter().map(|l| entries_json(l)).collect()),
        "dec": dec,
    }));
}

pub fn drive_dir(seed: u64, tier: &str, stim: Option<&str>, zero: &str, out: &mut Out) {
    let mut rng = Rng::new(seed);
    let all = [1u8, 2, 3, 4];
    // B1: stimuli enumerated by TLC (Gen_Dir): {"entries":[..], "raw":[..], "kind":..}
    if let Some(path) = stim {
        let text = std::fs::read_to_string(path).expect("stimuli file");
        for (i, line) in text.lines().enumerate() {
            if line.trim().is_empty() {
                continue;
            }
            let v: Value = serde_json::from_str(line).expect("stimulus json");
            let entries = json_entries(&v["entries"]);
            let kind = if v["kind"] == "zero" { "zero" } else { "gen" };
            // all codecs for a slice of the vectors, None for every vector
            let comps: &[u8] = if i % 16 == 0 { &all } else { &[1] };
            run_dir_case(&DirCase { entries: entries.clone(), kind }, comps, out);
            if kind != "zero" {
                if let Some(raw) = v.get("raw") {
                    run_raw_case(&entries, &json_bytes(raw), comps, out);
                }
            }
        }
    }
    if zero != "only" {
    // B2: random valid directories
    let (small, mid, big) = if tier == "thorough" { (400, 60, 100_000) } else { (120, 12, 5000) };
    run_dir_case(&DirCase { entries: vec![], kind: "rand" }, &all, out);
    for i in 0..small {
        let n = 1 + rng.below(12) as usize;
        let e = gen_valid_dir(&mut rng, n, i % 2 == 0);
        run_dir_case(&DirCase { entries: e, kind: "rand" }, &all, out);
    }
    for i in 0..mid {
        let n = 50 + rng.below(400) as usize;
        let e = gen_valid_dir(&mut rng, n, i % 2 == 0);
        run_dir_case(&DirCase { entries: e, kind: "rand" }, &all, out);
    }
    let e = gen_valid_dir(&mut rng, big, true);
    run_dir_case(&DirCase { entries: e, kind: "rand" }, &[1, 2], out);
    // highly regular directories (consecutive IDs, constant length, back-to-back offsets): they compress
    // to far fewer bytes than they have entries
    for n in [1000usize, if tier == "thorough" { 100_000 } else { 4000 }] {
        let e: Vec<Entry> = (0..n as u64).map(|i| Entry { tile_id: 7 + i, run_length: 1, length: 100, offset: 100 * i }).collect();
        run_dir_case(&DirCase { entries: e, kind: "rand" }, &all, out);
    }
    // a directory beyond 65536 entries: the lossless clause only (the byte-exact clause at this size is thorough-tier);
    // "same" is literal equality of the parsed list with the input list
    // ... once with narrow fields (about 4 bytes an entry) and once with wide ones (ID gaps, run lengths and lengths
    // near 2^32, offsets near 2^62: about 25 bytes an entry, 2.5 MB uncompressed); brotli at quality 11 needs a minute
    // for the wide one and is left to the thorough tier
    for wide in [false, true] {
        let n = if wide { 120_000u64 } else { 70_000u64 };
        let e: Vec<Entry> = if wide {
            // half of the entries have every field at its widest, the others a random magnitude per field: varints of
            // every length follow one another in every order, so that any fixed block size is crossed at every alignment
            let mut id = 0u64;
            (0..n)
                .map(|i| {
                    let wide_one = rng.chance(1, 2);
                    let mag = |rng: &mut Rng, bits: u64| if wide_one { 0 } else { rng.below(bits) };
                    let run = ((0xF000_0000u64 + rng.next() % 0x0FFF_0000) >> mag(&mut rng, 32)).max(1) as u32;
                    let length = ((0xFFF0_0000u64 + (i % 0xFFFF)) >> mag(&mut rng, 32)).max(1) as u32;
                    let offset = ((1u64 << 62) - 1 - (rng.next() % (1 << 40))) >> mag(&mut rng, 62);
                    let e = Entry { tile_id: id, run_length: run, length, offset };
                    id += u64::from(run) + (((1u64 << 32) + rng.next() % (1 << 33)) >> mag(&mut rng, 33));
                    e
                })
                .collect()
        } else {
            (0..n).map(|i| Entry { tile_id: 9 + i + (i / 1000), run_length: 1, length: 64, offset: 64 * i }).collect()
        };
        let dir = Directory::from(e.clone());
        let mut obs = Vec::new();
        for &c in &all {
            if wide && c == 3 && tier != "thorough" {
                continue;
            }
            for mode in ["sync", "async"] {
                let comp = comp_of(c);
                let d = dir.clone();
                let w = guard(|| {
                    if mode == "sync" {
                        let mut b = Vec::new();
                        d.to_writer(&mut b, comp).map(|()| b)
                    } else {
                        let mut cur = futures::io::Cursor::new(Vec::new());
                        block_on(d.to_async_writer(&mut cur, comp)).map(|()| cur.into_inner())
                    }
                });
                let mut o = json!({"comp": c, "mode": mode, "enc": res_tag(&w), "dec": "none", "same": false, "n_parsed": 0});
                if let Ok(Ok(bytes)) = w {
                    let r = guard(|| {
                        if mode == "sync" {
                            Directory::from_bytes(&bytes, comp)
                        } else {
                            block_on(Directory::from_async_reader(&mut futures::io::Cursor::new(&bytes), bytes.len() as u64, comp))
                        }
                    });
                    o["dec"] = json!(res_tag(&r));
                    if let Ok(Ok(p)) = r {
                        let l = Vec::<Entry>::from(p);
                        o["n_parsed"] = json!(l.len());
                        o["same"] = json!(l == e);
                    }
                }
                obs.push(o);
            }
        }
        out.emit(json!({"ev": "DirRoundTrip", "n": n, "obs": obs}));
    }
    }
    if zero == "no" {
        return;
    }
    // zero-length entries at first / random / last index (C19)
    for n in [1usize, 2, 3, 8, 50, 200] {
        let mut positions = vec![0, n - 1, rng.below(n as u64) as usize];
        positions.dedup();
        for p in positions {
            let mut e = gen_valid_dir(&mut rng, n, false);
            e[p].length = 0;
            run_dir_case(&DirCase { entries: e.clone(), kind: "zero" }, &all, out);
            // parser side: craft the bytes by encoding with length 1 and patching the varint
            let mut e1 = e.clone();
            e1[p].length = 1;
            // keep offsets explicit (non-contiguous) so patching the length does not change the meaning of others
            let mut raw = Vec::new();
            if Directory::from(e1.clone()).to_writer(&mut raw, pmtiles2::Compression::None).is_ok() {
                if let Some(pos) = zero_len_patch_pos(&raw, n, p) {
                    raw[pos] = 0;
                    run_zero_raw_case(&raw, n, p, &all, out);
                    // the same entry with a length of 2^32 (and 3 * 2^32): reads as 0 in the 32-bit length field
                    for wrapped in [vec![0x80u8, 0x80, 0x80, 0x80, 0x10], vec![0x80, 0x80, 0x80, 0x80, 0x30]] {
                        let mut w = raw.clone();
                        w.splice(pos..pos + 1, wrapped);
                        run_zero_raw_case(&w, n, p, &all, out);
                    }
                }
            }
        }
    }
}

/// position of the (single-byte) length varint of entry p in an uncompressed directory
fn zero_len_patch_pos(raw: &[u8], n: usize, p: usize) -> Option<usize> {
    // walk varints: 1 + n ids + n runs, then p lengths
    let mut pos = 0usize;
    let skip = |pos: &mut usize| {
        while raw[*pos] & 0x80 != 0 {
            *pos += 1;
        }
        *pos += 1;
    };
    for _ in 0..(1 + 2 * n + p) {
        skip(&mut pos);
    }
    if raw[pos] == 1 {
        Some(pos)
    } else {
        None
    }
}

fn run_zero_raw_case(raw: &[u8], n: usize, p: usize, comps: &[u8], out: &mut Out) {
    let mut dec = Vec::new();
    for &c in comps {
        let comp = comp_of(c);
        let Ok(bytes) = up_compress(c, raw) else { continue };
        for mode in ["sync", "async"] {
            let r = guard(|| {
                if mode == "sync" {
                    Directory::from_bytes(&bytes, comp)
                } else {
                    let mut cur = futures::io::Cursor::new(&bytes);
                    block_on(Directory::from_async_reader(&mut cur, bytes.len() as u64, comp))
                }
            });
            let zero_out = matches!(&r, Ok(Ok(d)) if Vec::<Entry>::from(d.clone()).iter().any(|e| e.length == 0));
            dec.push(json!({"comp": c, "mode": mode, "res": res_tag(&r), "zero_out": zero_out}));
        }
    }
    out.emit(json!({"ev": "DirZeroRaw", "raw": bytes_json(raw), "n": n, "p": p + 1, "dec": dec}));
}

// ------------------------------------------------------------------------------------------
// headers

pub fn header_json(h: &Header, stored: &[i64; 6]) -> Value {
    json!({
        "root_off": limbs(h.root_directory_offset), "root_len": limbs(h.root_directory_length),
        "meta_off": limbs(h.json_metadata_offset), "meta_len": limbs(h.json_metadata_length),
        "leaf_off": limbs(h.leaf_directories_offset), "leaf_len": limbs(h.leaf_directories_length),
        "data_off": limbs(h.tile_data_offset), "data_len": limbs(h.tile_data_length),
        "n_addr": limbs(h.num_addressed_tiles), "n_ent": limbs(h.num_tile_entries),
        "n_cont": limbs(h.num_tile_content),
        "clustered": u8::from(h.clustered), "icomp": comp_code(h.internal_compression),
        "tcomp": comp_code(h.tile_compression), "ttype": tt_code(h.tile_type),
        "minz": h.min_zoom, "maxz": h.max_zoom, "cz": h.center_zoom,
        "min_lon": stored[0], "min_lat": stored[1], "max_lon": stored[2], "max_lat": stored[3],
        "c_lon": stored[4], "c_lat": stored[5],
    })
}

/// Exact E7 analysis of a degree value: (floor(d*1e7), cmp) where cmp is the sign of
/// frac - 1/2, 0 inside a relative 2^-20 band around the tie.  Pure rational arithmetic.
pub fn e7_exact(d: f64) -> Option<(i64, i64)> {
    if !d.is_finite() {
        return None;
    }
    let bits = d.to_bits();
    let neg = bits >> 63 == 1;
    let exp = ((bits >> 52) & 0x7ff) as i32;
    let frac = bits & ((1u64 << 52) - 1);
    let (m, e) = if exp == 0 { (frac, -1074) } else { (frac | (1u64 << 52), exp - 1075) };
    // |d| * 1e7 = m * 1e7 * 2^e
    let num = u128::from(m) * 10_000_000u128;
    let (ip, rem, den): (u128, u128, u128) = if e >= 0 {
        if e > 40 {
            return None;
        }
        (num << e, 0, 1)
    } else {
        let s = (-e) as u32;
        if s >= 127 {
            (0, if num == 0 { 0 } else { 1 }, 2) // tiny: below half
        } else {
            (num >> s, num & ((1u128 << s) - 1), 1u128 << s)
        }
    };
    if ip > (1u128 << 40) {
        return None;
    }
    // value = sign * (ip + rem/den); floor and fractional part for negatives
    let (fl, r2, d2): (i64, u128, u128) = if !neg {
        (ip as i64, rem, den)
    } else if rem == 0 {
        (-(ip as i64), 0, 1)
    } else {
        (-(ip as i64) - 1, den - rem, den)
    };
    // cmp of r2/d2 with 1/2, with the tie band |2*r2 - d2| * 2^20 <= d2
    let twice = r2 * 2;
    let diff = if twice > d2 { twice - d2 } else { d2 - twice };
    let cmp = if diff.checked_mul(1 << 20).map_or(false, |x| x <= d2) {
        0
    } else if twice > d2 {
        1
    } else {
        -1
    };
    Some((fl, cmp))
}

fn header_from_parts(u: &[u64; 11], small: &[u8; 7], deg: &[f64; 6]) -> Header {
    let mut h = Header::default();
    h.root_directory_offset = u[0];
    h.root_directory_length = u[1];
    h.json_metadata_offset = u[2];
    h.json_metadata_length = u[3];
    h.leaf_directories_offset = u[4];
    h.leaf_directories_length = u[5];
    h.tile_data_offset = u[6];
    h.tile_data_length = u[7];
    h.num_addressed_tiles = u[8];
    h.num_tile_entries = u[9];
    h.num_tile_content = u[10];
    h.clustered = small[0] == 1;
    h.internal_compression = comp_of(small[1]);
    h.tile_compression = comp_of(small[2]);
    h.tile_type = tt_of(small[3]);
    h.min_zoom = small[4];
    h.max_zoom = small[5];
    h.center_zoom = small[6];
    h.min_pos.longitude = deg[0];
    h.min_pos.latitude = deg[1];
    h.max_pos.longitude = deg[2];
    h.max_pos.latitude = deg[3];
    h.center_pos.longitude = deg[4];
    h.center_pos.latitude = deg[5];
    h
}

fn header_degs(h: &Header) -> [f64; 6] {
    [
        h.min_pos.longitude,
        h.min_pos.latitude,
        h.max_pos.longitude,
        h.max_pos.latitude,
        h.center_pos.longitude,
        h.center_pos.latitude,
    ]
}

/// What the reader reports for a stored E7 value must be stored/1e7 (correctly rounded quotient).
fn stored_of_degs(d: &[f64; 6]) -> Option<[i64; 6]> {
    let mut s = [0i64; 6];
    for i in 0..6 {
        // invert exactly: the reported value is q = stored / 1e7; recover stored as the integer n
        // with n as f64 / 1e7 == q (searched near round(q*1e7)); no PMTiles knowledge involved.
        let g = (d[i] * 1e7).round();
        let mut found = None;
        for c in [g, g - 1.0, g + 1.0] {
            if (c / 1e7 - d[i]).abs() <= 2.0 * f64::EPSILON * d[i].abs() && c.abs() <= 2_147_483_648.0 {
                found = Some(c as i64);
                break;
            }
        }
        s[i] = found?;
    }
    Some(s)
}

fn write_header(h: &Header, mode: &str) -> Result<std::io::Result<Vec<u8>>, String> {
    guard(|| {
        if mode == "sync" {
            let mut b = Vec::new();
            h.to_writer(&mut b).map(|()| b)
        } else {
            let mut cur = futures::io::Cursor::new(Vec::<u8>::new());
            block_on(h.to_async_writer(&mut cur)).map(|()| cur.into_inner())
        }
    })
}

/// one event: input bytes -> for each API: result, decoded fields, reader position, re-encoding
fn run_hdr_bytes(bytes: &[u8], out: &mut Out) {
    let mut obs = Vec::new();
    for api in ["from_bytes", "from_reader", "from_async_reader"] {
        let mut pos: u64 = 0;
        let r = guard(|| match api {
            "from_bytes" => Header::from_bytes(bytes),
            "from_reader" => {
                let mut cur = Cursor::new(bytes);
                let r = Header::from_reader(&mut cur);
                pos = cur.position();
                r
            }
            _ => {
                let mut cur = futures::io::Cursor::new(bytes);
                let r = block_on(Header::from_async_reader(&mut cur));
                pos = cur.position();
                r
            }
        });
        let mut o = json!({"api": api, "res": res_tag(&r)});
        if let Ok(Ok(h)) = &r {
            if api != "from_bytes" {
                o["pos"] = json!(pos.min(1 << 20));
            }
            match stored_of_degs(&header_degs(h)) {
                Some(st) => o["h"] = header_json(h, &st),
                None => o["res"] = json!("badcoord"),
            }
            for mode in ["sync", "async"] {
                let w = write_header(h, mode);
                let key = if mode == "sync" { "re_sync" } else { "re_async" };
                // uniformly typed for TLC: bytes (possibly empty) + a result tag
                match &w {
                    Ok(Ok(b)) => o[key] = bytes_json(b),
                    _ => o[key] = json!([]),
                }
                o[format!("{key}_res")] = json!(res_tag(&w));
            }
        }
        obs.push(o);
    }
    out.emit(json!({"ev": "Hdr", "bytes": bytes_json(bytes), "obs": obs}));
}

fn valid_header_bytes(rng: &mut Rng) -> Vec<u8> {
    let bounds = [0u64, 1, 127, 128, 16384, (1 << 32) - 1, 1 << 32, 1 << 63, u64::MAX];
    let mut b = Vec::with_capacity(127);
    b.extend_from_slice(b"PMTiles");
    b.push(3);
    for _ in 0..11 {
        let v = if rng.chance(1, 2) { *rng.pick(&bounds) } else { rng.magnitude(64) };
        b.extend_from_slice(&v.to_le_bytes());
    }
    b.push(rng.below(2) as u8);
    b.push(rng.below(5) as u8);
    b.push(rng.below(5) as u8);
    b.push(rng.below(6) as u8);
    b.push(rng.next() as u8);
    b.push(rng.next() as u8);
    let cb = [
        0i32, 1, -1, 20, 21, -20, -21, 5, -5, 15, 25, 1_799_999_999, -1_799_999_999, 1_800_000_000,
        -1_800_000_000, 850_511_287, -850_511_287, i32::MAX, i32::MIN, i32::MAX - 1, i32::MIN + 1,
        1_800_000_001, 999_999_999, 123_456_789, -123_456_789,
    ];
    let mut coord = |rng: &mut Rng| -> i32 {
        match rng.below(3) {
            0 => *rng.pick(&cb),
            1 => (rng.below(3_600_000_001) as i64 - 1_800_000_000) as i32,
            _ => rng.next() as i32,
        }
    };
    for _ in 0..4 {
        let c = coord(rng);
        b.extend_from_slice(&c.to_le_bytes());
    }
    b.push(rng.next() as u8);
    for _ in 0..2 {
        let c = coord(rng);
        b.extend_from_slice(&c.to_le_bytes());
    }
    assert_eq!(b.len(), 127);
    b
}

pub fn drive_hdr(seed: u64, tier: &str, out: &mut Out) {
    let mut rng = Rng::new(seed ^ 0x4844);
    // beyond the listed properties: the HTTP tables served from the header (reported as INFO drift only)
    {
        let mut rows = Vec::new();
        for tt in 0u8..=5 {
            for tc in 0u8..=4 {
                let mut h = Header::default();
                h.tile_type = tt_of(tt);
                h.tile_compression = comp_of(tc);
                rows.push(json!({"tt": tt, "tc": tc,
                                 "ct": h.http_content_type().unwrap_or("none"), "ce": h.http_content_encoding().unwrap_or("none"),
                                 "ct_enum": tt_of(tt).http_content_type().unwrap_or("none"),
                                 "ce_enum": comp_of(tc).http_content_encoding().unwrap_or("none")}));
            }
        }
        out.emit(json!({"ev": "Tables", "rows": rows, "mime": pmtiles2::MIME_TYPE}));
        // documented defaults of a new archive and of Header::default(), and the small Directory / Entry API
        let pm = pmtiles2::PMTiles::new(pmtiles2::TileType::Png, pmtiles2::Compression::Brotli);
        let hd = Header::default();
        let mut hb = Vec::new();
        let _ = hd.to_writer(&mut hb);
        let mut apis = Vec::new();
        for n in [0usize, 1, 5] {
            let es = gen_valid_dir(&mut rng, n, false);
            let d = Directory::from(es.clone());
            let iter: Vec<Entry> = (&d).into_iter().copied().collect();
            let ranges: Vec<Value> = es.iter().map(|e| { let r = e.tile_id_range(); json!([limbs(r.start), limbs(r.end)]) }).collect();
            let leafs: Vec<bool> = es.iter().map(Entry::is_leaf_dir_entry).collect();
            apis.push(json!({"entries": entries_json(&es), "len": d.len(), "is_empty": d.is_empty(), "iter": entries_json(&iter),
                             "first": if n > 0 { entries_json(&[d[0]]) } else { json!([]) }, "ranges": ranges, "leafs": leafs,
                             "back": entries_json(&Vec::<Entry>::from(d))}));
        }
        let coords_zero = [pm.min_longitude, pm.min_latitude, pm.max_longitude, pm.max_latitude, pm.center_longitude, pm.center_latitude].iter().all(|c| *c == 0.0);
        out.emit(json!({"ev": "Defaults",
            "new": {"ic": comp_code(pm.internal_compression), "tc": comp_code(pm.tile_compression), "tt": tt_code(pm.tile_type),
                    "zooms": [pm.min_zoom, pm.max_zoom, pm.center_zoom], "n": pm.num_tiles(), "meta_empty": pm.meta_data.is_empty(),
                    "coords_zero": coords_zero},
            "header_default": bytes_json(&hb), "apis": apis}));
    }
    let n_rand = if tier == "thorough" { 6000 } else { 600 };
    // ---- bytes -> header -> bytes
    let base = valid_header_bytes(&mut rng);
    // every truncation
    for k in 0..127 {
        run_hdr_bytes(&base[..k], out);
    }
    // every code at the three enum bytes and the clustered byte; version and magic corruptions
    for pos in [96usize, 97, 98, 99] {
        for code in 0..=255u8 {
            if pos == 96 && code > 3 && code % 37 != 0 {
                continue;
            }
            let mut b = base.clone();
            b[pos] = code;
            run_hdr_bytes(&b, out);
        }
    }
    for v in 0..=255u8 {
        if v % 5 == 0 || v < 8 {
            let mut b = base.clone();
            b[7] = v;
            run_hdr_bytes(&b, out);
        }
    }
    for i in 0..7 {
        for d in [1u8, 0x20, 0x80] {
            let mut b = base.clone();
            b[i] ^= d;
            run_hdr_bytes(&b, out);
        }
    }
    // trailing bytes after a valid header: the reader must stop at 127
    for extra in [1usize, 5, 300] {
        let mut b = valid_header_bytes(&mut rng);
        b.extend(rng.bytes(extra));
        run_hdr_bytes(&b, out);
    }
    for _ in 0..n_rand {
        let b = valid_header_bytes(&mut rng);
        run_hdr_bytes(&b, out);
    }
    // strided sweep of stored coordinate values through every coordinate field
    let stride: i64 = if tier == "thorough" { 104_729 } else { 6_700_417 };
    let mut v: i64 = i64::from(i32::MIN);
    let mut field = 0usize;
    while v <= i64::from(i32::MAX) {
        let mut b = base.clone();
        let offs = [102usize, 106, 110, 114, 119, 123];
        b[offs[field]..offs[field] + 4].copy_from_slice(&(v as i32).to_le_bytes());
        run_hdr_bytes(&b, out);
        field = (field + 1) % 6;
        v += stride;
    }
    // ---- degrees -> stored (nearest multiple of 1e-7)
    let mut degs: Vec<f64> = vec![
        0.0, -0.0, 1e-7, -1e-7, 0.5e-7, -0.5e-7, 1.5e-7, 2.5e-7, -1.5e-7, 0.49999e-7, 0.50001e-7,
        180.0, -180.0, 179.9999999, -179.9999999, 85.0511287, -85.0511287, 90.0, -90.0, 11.2548828,
        43.7798828, 0.1, 0.2, 0.3, 0.7, 1.1, 2.0000001, 2.1e-6, 2.0e-6, -2.1e-6, 33.3333333,
        -33.3333333, 66.6666667, 179.99999995, -179.99999995, 1.23456785, 1.23456775, 12.3456789,
    ];
    let n_deg = if tier == "thorough" { 20000 } else { 3000 };
    for i in 0..n_deg {
        let k = rng.below(3_600_000_000) as i64 - 1_800_000_000;
        let d = match i % 4 {
            0 => k as f64 / 1e7,
            1 => (k as f64 + 0.5) / 1e7,
            2 => f64::from_bits(((k as f64 + 0.5) / 1e7).to_bits().wrapping_add(rng.below(5)).wrapping_sub(2)),
            _ => (rng.next() as f64 / u64::MAX as f64) * 360.0 - 180.0,
        };
        degs.push(d);
    }
    let mut coords = Vec::new();
    for (i, d) in degs.iter().enumerate() {
        let Some((fl, cmp)) = e7_exact(*d) else { continue };
        let mut dg = [0.0f64; 6];
        dg[i % 6] = *d;
        let h = header_from_parts(&[0; 11], &[0, 1, 1, 0, 0, 0, 0], &dg);
        for mode in ["sync", "async"] {
            if mode == "async" && i % 8 != 0 {
                continue;
            }
            let w = write_header(&h, mode);
            let mut o = json!({"fl": fl, "cmp": cmp, "field": i % 6, "mode": mode, "res": res_tag(&w)});
            if let Ok(Ok(b)) = &w {
                if b.len() == 127 {
                    let offs = [102usize, 106, 110, 114, 119, 123];
                    let p = offs[i % 6];
                    o["stored"] = json!(i32::from_le_bytes([b[p], b[p + 1], b[p + 2], b[p + 3]]));
                } else {
                    o["res"] = json!("badlen");
                }
            }
            o["deg"] = json!(format!("{:e}", d));
            coords.push(o);
        }
        if coords.len() >= 500 {
            out.emit(json!({"ev": "Coords", "cases": coords}));
            coords = Vec::new();
        }
    }
    if !coords.is_empty() {
        out.emit(json!({"ev": "Coords", "cases": coords}));
    }
    // ---- field values -> bytes (serialiser from set values), boundary u64 values in every field
    let bounds = [0u64, 1, 127, (1 << 32) - 1, 1 << 32, 1 << 63, u64::MAX];
    let n_enc = if tier == "thorough" { 2000 } else { 300 };
    for i in 0..n_enc {
        let mut u = [0u64; 11];
        for (k, x) in u.iter_mut().enumerate() {
            *x = if (i / 7) % 11 == k { bounds[i % 7] } else { rng.magnitude(64) };
        }
        let small = [
            rng.below(2) as u8, rng.below(5) as u8, rng.below(5) as u8, rng.below(6) as u8,
            rng.next() as u8, rng.next() as u8, rng.next() as u8,
        ];
        let mut st = [0i64; 6];
        let mut dg = [0f64; 6];
        for k in 0..6 {
            st[k] = rng.below(3_600_000_001) as i64 - 1_800_000_000;
            dg[k] = st[k] as f64 / 1e7;
        }
        let h = header_from_parts(&u, &small, &dg);
        let mut obs = Vec::new();
        for mode in ["sync", "async"] {
            let w = write_header(&h, mode);
            let mut o = json!({"mode": mode, "res": res_tag(&w)});
            if let Ok(Ok(b)) = &w {
                o["bytes"] = bytes_json(b);
            }
            obs.push(o);
        }
        out.emit(json!({"ev": "HdrEnc", "h": header_json(&h, &st), "obs": obs}));
    }
}
