//! Shared helpers: limb JSON, deterministic RNG, panic capture, upstream codecs.
//! The harness tokenises and transports; it never judges (see DESIGN.md 4.3).
#![allow(dead_code)]

use serde_json::{json, Value};
use std::io::{Read, Write};
use std::panic::{catch_unwind, AssertUnwindSafe};

/// u64 -> 4 limbs of 16 bits, most significant first (TLC-safe: every number < 2^16).
pub fn limbs(v: u64) -> Value {
    json!([(v >> 48) & 0xffff, (v >> 32) & 0xffff, (v >> 16) & 0xffff, v & 0xffff])
}

pub fn from_limbs(v: &Value) -> u64 {
    let a = v.as_array().expect("limbs array");
    assert_eq!(a.len(), 4);
    let mut r = 0u64;
    for x in a {
        r = (r << 16) | x.as_u64().expect("limb");
    }
    r
}

pub fn bytes_json(b: &[u8]) -> Value {
    Value::Array(b.iter().map(|x| Value::from(*x)).collect())
}

pub fn json_bytes(v: &Value) -> Vec<u8> {
    v.as_array()
        .expect("byte array")
        .iter()
        .map(|x| x.as_u64().expect("byte") as u8)
        .collect()
}

/// splitmix64: deterministic, dependency-free.
#[derive(Clone)]
pub struct Rng(pub u64);

impl Rng {
    pub fn new(seed: u64) -> Self {
        Rng(seed ^ 0x9E37_79B9_7F4A_7C15)
    }
    pub fn next(&mut self) -> u64 {
        self.0 = self.0.wrapping_add(0x9E37_79B9_7F4A_7C15);
        let mut z = self.0;
        z = (z ^ (z >> 30)).wrapping_mul(0xBF58_476D_1CE4_E5B9);
        z = (z ^ (z >> 27)).wrapping_mul(0x94D0_49BB_1331_11EB);
        z ^ (z >> 31)
    }
    /// uniform in 0..n (n > 0)
    pub fn below(&mut self, n: u64) -> u64 {
        self.next() % n
    }
    pub fn range(&mut self, lo: u64, hi_incl: u64) -> u64 {
        if hi_incl == u64::MAX && lo == 0 {
            return self.next();
        }
        lo + self.below(hi_incl - lo + 1)
    }
    pub fn chance(&mut self, num: u64, den: u64) -> bool {
        self.below(den) < num
    }
    pub fn pick<'a, T>(&mut self, xs: &'a [T]) -> &'a T {
        &xs[self.below(xs.len() as u64) as usize]
    }
    pub fn bytes(&mut self, n: usize) -> Vec<u8> {
        (0..n).map(|_| self.next() as u8).collect()
    }
    /// a value with a random bit width up to `bits` (good spread over magnitudes)
    pub fn magnitude(&mut self, bits: u32) -> u64 {
        let w = self.below(u64::from(bits) + 1) as u32;
        if w == 0 {
            0
        } else if w == 64 {
            self.next()
        } else {
            self.next() & ((1u64 << w) - 1) | (1u64 << (w - 1))
        }
    }
}

/// Heartbeat for the orchestrator: a line on stdout, at most one every few seconds, whenever a guarded library call
/// has returned.  The orchestrator reports a hang when the driver burns processor time with neither a finished event
/// nor a heartbeat -- that is, while a single library call is still running.
pub fn heartbeat() {
    use std::sync::atomic::{AtomicU64, Ordering};
    static LAST: AtomicU64 = AtomicU64::new(0);
    let now = std::time::SystemTime::now().duration_since(std::time::UNIX_EPOCH).map_or(0, |d| d.as_secs());
    let last = LAST.load(Ordering::Relaxed);
    if now >= last + 3 {
        LAST.store(now, Ordering::Relaxed);
        println!("progress {now}");
        let _ = std::io::stdout().flush();
    }
}

/// Run a closure, turning a panic into `Err(payload text)`.
pub fn guard<T>(f: impl FnOnce() -> T) -> Result<T, String> {
    let r = guard_inner(f);
    heartbeat();
    r
}

fn guard_inner<T>(f: impl FnOnce() -> T) -> Result<T, String> {
    match catch_unwind(AssertUnwindSafe(f)) {
        Ok(v) => Ok(v),
        Err(p) => {
            let msg = if let Some(s) = p.downcast_ref::<&str>() {
                (*s).to_string()
            } else if let Some(s) = p.downcast_ref::<String>() {
                s.clone()
            } else {
                "panic".to_string()
            };
            Err(msg)
        }
    }
}

pub fn silence_panics() {
    std::panic::set_hook(Box::new(|_| {}));
}

/// "ok" | "err" | "panic" for an io::Result computed under `guard`.
pub fn res_tag<T>(r: &Result<std::io::Result<T>, String>) -> &'static str {
    match r {
        Ok(Ok(_)) => "ok",
        Ok(Err(_)) => "err",
        Err(_) => "panic",
    }
}

// ---- upstream codecs, called directly (NOT through pmtiles2::util) -------------------

pub const COMP_NAMES: [&str; 5] = ["unknown", "none", "gzip", "brotli", "zstd"];

pub fn comp_of(code: u8) -> pmtiles2::Compression {
    match code {
        0 => pmtiles2::Compression::Unknown,
        1 => pmtiles2::Compression::None,
        2 => pmtiles2::Compression::GZip,
        3 => pmtiles2::Compression::Brotli,
        4 => pmtiles2::Compression::ZStd,
        _ => panic!("bad compression code"),
    }
}

pub fn comp_code(c: pmtiles2::Compression) -> u8 {
    match c {
        pmtiles2::Compression::Unknown => 0,
        pmtiles2::Compression::None => 1,
        pmtiles2::Compression::GZip => 2,
        pmtiles2::Compression::Brotli => 3,
        pmtiles2::Compression::ZStd => 4,
    }
}

pub fn tt_of(code: u8) -> pmtiles2::TileType {
    match code {
        0 => pmtiles2::TileType::Unknown,
        1 => pmtiles2::TileType::Mvt,
        2 => pmtiles2::TileType::Png,
        3 => pmtiles2::TileType::Jpeg,
        4 => pmtiles2::TileType::WebP,
        5 => pmtiles2::TileType::AVIF,
        _ => panic!("bad tile type code"),
    }
}

pub fn tt_code(c: pmtiles2::TileType) -> u8 {
    match c {
        pmtiles2::TileType::Unknown => 0,
        pmtiles2::TileType::Mvt => 1,
        pmtiles2::TileType::Png => 2,
        pmtiles2::TileType::Jpeg => 3,
        pmtiles2::TileType::WebP => 4,
        pmtiles2::TileType::AVIF => 5,
    }
}

/// Decode with the upstream crates; also reports how many input bytes were consumed is not
/// available uniformly, so callers that need "consumes exactly" slice the input themselves.
pub fn up_decompress(code: u8, data: &[u8]) -> std::io::Result<Vec<u8>> {
    let mut out = Vec::new();
    match code {
        1 => out.extend_from_slice(data),
        2 => {
            flate2::read::GzDecoder::new(data).read_to_end(&mut out)?;
        }
        3 => {
            // RFC 7932 section 9.1: the window-size prefix 0010001 (read LSB first) is reserved; the brotli crate uses it
            // for its non-standard "large window" streams, which RFC decoders (browsers, other PMTiles readers) reject
            if data.first().map_or(false, |b| b & 0x7f == 0x11) {
                return Err(std::io::Error::new(std::io::ErrorKind::InvalidData, "brotli stream with a reserved window size (not RFC 7932)"));
            }
            brotli::Decompressor::new(data, 4096).read_to_end(&mut out)?;
        }
        4 => {
            zstd::Decoder::new(data)?.read_to_end(&mut out)?;
        }
        _ => return Err(std::io::Error::new(std::io::ErrorKind::Other, "unknown codec")),
    }
    Ok(out)
}

pub fn up_compress(code: u8, data: &[u8]) -> std::io::Result<Vec<u8>> {
    let mut out = Vec::new();
    match code {
        1 => out.extend_from_slice(data),
        2 => {
            let mut w = flate2::write::GzEncoder::new(&mut out, flate2::Compression::new(6));
            w.write_all(data)?;
            w.finish()?;
        }
        3 => {
            let mut w = brotli::CompressorWriter::new(&mut out, 4096, 5, 22);
            w.write_all(data)?;
            w.flush()?;
            drop(w);
        }
        4 => {
            let mut w = zstd::Encoder::new(&mut out, 3)?;
            w.write_all(data)?;
            w.finish()?;
        }
        _ => return Err(std::io::Error::new(std::io::ErrorKind::Other, "unknown codec")),
    }
    Ok(out)
}

/// Interner: byte strings -> small integer tokens, by full equality.
#[derive(Default)]
pub struct Interner {
    map: std::collections::HashMap<Vec<u8>, u32>,
    pub items: Vec<Vec<u8>>,
}

impl Interner {
    /// tokens start at 1
    pub fn tok(&mut self, b: &[u8]) -> u32 {
        if let Some(t) = self.map.get(b) {
            return *t;
        }
        self.items.push(b.to_vec());
        let t = self.items.len() as u32;
        self.map.insert(b.to_vec(), t);
        t
    }
}

pub struct Out {
    w: std::io::BufWriter<std::fs::File>,
    pub n: usize,
}

impl Out {
    pub fn create(path: &str) -> Self {
        Out {
            w: std::io::BufWriter::new(std::fs::File::create(path).expect("create trace file")),
            n: 0,
        }
    }
    pub fn emit(&mut self, v: Value) {
        serde_json::to_writer(&mut self.w, &v).expect("write event");
        self.w.write_all(b"\n").expect("write newline");
        // every finished event is visible at once: the orchestrator tells a library call that never returns
        // from a slow driver by the processor time spent since the last finished event
        self.w.flush().expect("flush event");
        self.n += 1;
    }
    pub fn finish(mut self) {
        self.w.flush().expect("flush trace");
    }
}

pub fn block_on<F: std::future::Future>(f: F) -> F::Output {
    futures::executor::block_on(f)
}
