//! Stream-level scenarios shared by C13 (fragmentation / Pending), C15 (fail-stop faults),
//! C17 (torn writes), C18 (start position), C20 (lazy, in-section reads).
//! A scenario is one library call (or a short fixed sequence) over instrumented streams.

use crate::files::Ctx;
use crate::streams::*;
use crate::util::*;
use pmtiles2::util::{read_directories, read_directories_async, write_directories, write_directories_async};
use pmtiles2::{Directory, Entry, Header, PMTiles};
use serde_json::{json, Value};

#[derive(Clone, Debug)]
pub struct Scen {
    pub name: String,
    pub kind: &'static str,
    pub comp: u8,
    pub n: usize,
    pub is_async: bool,
}

pub struct Outcome {
    pub res: &'static str,
    /// canonical bytes of the returned value (readers) -- compared by token
    pub value: Vec<u8>,
    /// final contents of the output stream (writers)
    pub out: Vec<u8>,
    pub out_pos: u64,
}

fn entries_n(n: usize, seed: u64) -> Vec<Entry> {
    let mut rng = Rng::new(seed);
    crate::codec::gen_valid_dir(&mut rng, n, false)
}

fn irregular(n: usize) -> Vec<Entry> {
    let mut rng = Rng::new(77);
    let mut v = Vec::with_capacity(n);
    let mut id = 0u64;
    let mut off = 0u64;
    for _ in 0..n {
        id += 1 + rng.below(1 << 20);
        let len = 1 + rng.below(60_000) as u32;
        v.push(Entry { tile_id: id, run_length: 1, length: len, offset: off });
        off += u64::from(len) + rng.below(3);
    }
    v
}

pub fn archive_tiles(n: usize) -> Vec<(u64, Vec<u8>)> {
    let mut rng = Rng::new(4242 + n as u64);
    let mut id = 0u64;
    (0..n)
        .map(|i| {
            id += 1 + rng.below(1 << 18);
            let mut c = id.to_le_bytes().to_vec();
            if n == 23 {
                // the "large data" archive: 23 tiles of 20 to 42 KB, about 700 KB of tile data
                c.extend(rng.bytes(20_000 + 1000 * i));
                return (id, c);
            }
            if i % 5 == 4 {
                c = vec![9, 9, 9]; // duplicates
            } else {
                c.extend(rng.bytes(1 + (i % 40)));
            }
            (id, c)
        })
        .collect()
}

pub fn archive_bytes(n: usize, comp: u8) -> Vec<u8> {
    let mut pm = PMTiles::<std::io::Cursor<Vec<u8>>>::default();
    pm.internal_compression = comp_of(comp);
    pm.meta_data.insert("k".into(), json!([1, 2, {"z": n}]));
    pm.min_zoom = 1;
    pm.max_longitude = 11.25;
    for (id, c) in archive_tiles(n) {
        pm.add_tile(id, c).expect("add");
    }
    let mut cur = std::io::Cursor::new(Vec::new());
    pm.to_writer(&mut cur).expect("write scenario archive");
    cur.into_inner()
}

/// tiles larger than typical buffer sizes (64 KiB and beyond, not multiples of it), the last one at the end of the file
pub fn big_tile_archive() -> Vec<u8> {
    let mut rng = Rng::new(9);
    let mut pm = PMTiles::<std::io::Cursor<Vec<u8>>>::default();
    pm.internal_compression = comp_of(2);
    for (i, len) in [70_000usize, 65_536, 100_159, 10, 131_073, 8191, 262_147, 65_537, 531_443].iter().enumerate() {
        pm.add_tile(100 + 3 * i as u64, rng.bytes(*len)).expect("add");
    }
    let mut cur = std::io::Cursor::new(Vec::new());
    pm.to_writer(&mut cur).expect("write");
    cur.into_inner()
}

fn header_value(h: &Header) -> Vec<u8> {
    let mut b = Vec::new();
    let _ = h.to_writer(&mut b);
    b
}

fn pm_value<R>(pm: &PMTiles<R>) -> Vec<u8> {
    let mut ids: Vec<u64> = pm.tile_ids().into_iter().copied().collect();
    ids.sort_unstable();
    let mut v = serde_json::to_vec(&json!({"ids": ids, "n": pm.num_tiles(), "minz": pm.min_zoom, "maxlon": pm.max_longitude.to_bits(),
                                           "ic": comp_code(pm.internal_compression), "meta": Value::Object(pm.meta_data.clone())}))
        .expect("ser");
    v.push(0);
    v
}

pub fn scenarios(tier: &str) -> Vec<Scen> {
    let mut v = Vec::new();
    let mut add = |kind: &'static str, comp: u8, n: usize| {
        for is_async in [false, true] {
            v.push(Scen { name: format!("{kind}/c{comp}/n{n}/{}", if is_async { "async" } else { "sync" }), kind, comp, n, is_async });
        }
    };
    add("hdr_write", 1, 0);
    add("hdr_read", 1, 0);
    for c in 1u8..=4 {
        add("dir_write", c, 12);
        add("dir_read", c, 12);
        add("dirs_write", c, 12);
        add("arch_write", c, 0);
        add("arch_write", c, 7);
        add("arch_read", c, 7);
        add("arch_read_partial", c, 7);
        add("arch_rewrite", c, 7);
        add("tile_get", c, 7);
        if c == 2 {
            add("tile_get_big", c, 7);
        }
        add("dirs_read", c, 7);
    }
    // leaf spill: the seek-back path
    let big = if tier == "thorough" { vec![1u8, 2, 3, 4] } else { vec![1u8, 2] };
    // enough tiles that a gzip archive has several back-to-back leaf directories
    add("arch_read", 2, 12_000);
    for c in big {
        add("dirs_write", c, 2600);
        add("arch_write", c, 4300);
        add("arch_read", c, 4300);
    }
    v
}

/// Run one scenario.  `inp` = control of the input stream, `outp` = control of the output stream.
/// `p0` = start position of the output stream (prefilled with 0xAB up to p0 + 40).
pub fn run(s: &Scen, inp: &Shared, outp: &Shared, p0: u64) -> Outcome {
    let comp = comp_of(s.comp);
    // prefilled with marker bytes: 40 bytes beyond the start, or (odd start positions) far beyond the archive's end
    let prefill = if p0 == 0 { 0 } else if p0 % 2 == 1 { p0 as usize + 300_000 } else { p0 as usize + 40 };
    let mut out_stream = TStream::new(vec![0xAB; prefill], outp.clone());
    out_stream.pos = p0;
    let mut value = Vec::new();
    let is_async = s.is_async;
    let res: Result<std::io::Result<()>, String> = guard(|| -> std::io::Result<()> {
        match s.kind {
            "hdr_write" => {
                let mut h = Header::default();
                h.tile_data_length = 0x0102_0304_0506_0708;
                h.min_zoom = 3;
                if is_async { block_on(h.to_async_writer(&mut out_stream)) } else { h.to_writer(&mut out_stream) }
            }
            "hdr_read" => {
                let mut h = Header::default();
                h.num_tile_entries = 77;
                let mut input = TStream::new(header_value(&h), inp.clone());
                let r = if is_async { block_on(Header::from_async_reader(&mut input))? } else { Header::from_reader(&mut input)? };
                value = header_value(&r);
                value.extend(input.pos.to_le_bytes());
                Ok(())
            }
            "dir_write" => {
                let d = Directory::from(entries_n(s.n, 5));
                if is_async { block_on(d.to_async_writer(&mut out_stream, comp)) } else { d.to_writer(&mut out_stream, comp) }
            }
            "dir_read" => {
                let mut b = Vec::new();
                Directory::from(entries_n(s.n, 5)).to_writer(&mut b, comp)?;
                let len = b.len() as u64;
                b.extend_from_slice(&[0xEE; 9]); // bytes after the directory must not be needed
                let mut input = TStream::new(b, inp.clone());
                let d = if is_async { block_on(Directory::from_async_reader(&mut input, len, comp))? } else { Directory::from_reader(&mut input, len, comp)? };
                value = format!("{:?}", Vec::<Entry>::from(d)).into_bytes();
                Ok(())
            }
            "dirs_write" => {
                let es = if s.n > 1000 { irregular(s.n) } else { entries_n(s.n, 9) };
                let leaf = if is_async {
                    block_on(write_directories_async(&mut out_stream, &es, comp, None))?
                } else {
                    write_directories(&mut out_stream, &es, comp, None)?
                };
                value = leaf;
                Ok(())
            }
            "dirs_read" => {
                let bytes = archive_bytes(s.n, s.comp);
                let le = |o: usize| u64::from_le_bytes(bytes[o..o + 8].try_into().expect("8"));
                let (root, leaf_off) = ((le(8), le(16)), le(40));
                let mut input = TStream::new(bytes.clone(), inp.clone());
                let m = if is_async {
                    block_on(read_directories_async(&mut input, comp, root, leaf_off, ..))?
                } else {
                    read_directories(&mut input, comp, root, leaf_off, ..)?
                };
                let mut l: Vec<(u64, u64, u32)> = m.iter().map(|(k, v)| (*k, v.offset, v.length)).collect();
                l.sort_unstable();
                value = format!("{l:?}").into_bytes();
                Ok(())
            }
            "arch_write" => {
                if is_async {
                    let mut pm = PMTiles::<futures::io::Cursor<Vec<u8>>>::default();
                    pm.internal_compression = comp;
                    pm.meta_data.insert("a".into(), json!("b"));
                    for (id, c) in archive_tiles(s.n) {
                        pm.add_tile(id, c)?;
                    }
                    block_on(pm.to_async_writer(&mut out_stream))
                } else {
                    let mut pm = PMTiles::<std::io::Cursor<Vec<u8>>>::default();
                    pm.internal_compression = comp;
                    pm.meta_data.insert("a".into(), json!("b"));
                    for (id, c) in archive_tiles(s.n) {
                        pm.add_tile(id, c)?;
                    }
                    pm.to_writer(&mut out_stream)
                }
            }
            "arch_read" | "arch_read_partial" => {
                let bytes = archive_bytes(s.n, s.comp);
                let input = TStream::new(bytes, inp.clone());
                let tiles = archive_tiles(s.n);
                let mid = tiles[tiles.len() / 2].0;
                if is_async {
                    let pm = if s.kind == "arch_read" { block_on(PMTiles::from_async_reader(input))? } else { block_on(PMTiles::from_async_reader_partially(input, ..=mid))? };
                    value = pm_value(&pm);
                } else {
                    let pm = if s.kind == "arch_read" { PMTiles::from_reader(input)? } else { PMTiles::from_reader_partially(input, ..=mid)? };
                    value = pm_value(&pm);
                }
                Ok(())
            }
            "tile_get" => {
                let bytes = archive_bytes(s.n, s.comp);
                let tiles = archive_tiles(s.n);
                // open on a plain cursor, then move the reader... the tile reads must go through the instrumented stream:
                // open through it with recording, the caller separates open ops from lookup ops by the mark below
                let input = TStream::new(bytes, inp.clone());
                if is_async {
                    let mut pm = block_on(PMTiles::from_async_reader(input))?;
                    for (id, _) in tiles.iter().take(3) {
                        let t = block_on(pm.get_tile_by_id_async(*id))?;
                        value.extend(t.unwrap_or_default());
                    }
                    for (id, _) in tiles.iter().skip(1).take(2) {
                        if let Ok((z, x, y)) = pmtiles2::util::zxy(*id) {
                            let t = block_on(pm.get_tile_async(x, y, z))?;
                            value.extend(t.unwrap_or_else(|| b"<no tile>".to_vec()));
                        }
                    }
                } else {
                    let mut pm = PMTiles::from_reader(input)?;
                    for (id, _) in tiles.iter().take(3) {
                        let t = pm.get_tile_by_id(*id)?;
                        value.extend(t.unwrap_or_default());
                    }
                    // the same tiles looked up by coordinates
                    for (id, _) in tiles.iter().skip(1).take(2) {
                        if let Ok((z, x, y)) = pmtiles2::util::zxy(*id) {
                            // a lookup that answers "no tile" is an observation, not an error of the scenario
                            let t = pm.get_tile(x, y, z)?;
                            value.extend(t.unwrap_or_else(|| b"<no tile>".to_vec()));
                        }
                    }
                }
                Ok(())
            }
            "tile_get_big" => {
                // tiles beyond 64 KiB, read back through the fragmenting stream and re-saved
                let input = TStream::new(big_tile_archive(), inp.clone());
                if is_async {
                    let mut pm = block_on(PMTiles::from_async_reader(input))?;
                    for id in [100u64, 106, 112] {
                        value.extend(block_on(pm.get_tile_by_id_async(id))?.unwrap_or_default());
                    }
                    block_on(pm.to_async_writer(&mut out_stream))
                } else {
                    let mut pm = PMTiles::from_reader(input)?;
                    for id in [100u64, 106, 112] {
                        value.extend(pm.get_tile_by_id(id)?.unwrap_or_default());
                    }
                    pm.to_writer(&mut out_stream)
                }
            }
            "arch_rewrite" => {
                // open from an instrumented input, edit, write to the instrumented output
                let bytes = archive_bytes(s.n, s.comp);
                let input = TStream::new(bytes, inp.clone());
                if is_async {
                    let mut pm = block_on(PMTiles::from_async_reader(input))?;
                    pm.add_tile(3, vec![1, 2, 3])?;
                    block_on(pm.to_async_writer(&mut out_stream))
                } else {
                    let mut pm = PMTiles::from_reader(input)?;
                    pm.add_tile(3, vec![1, 2, 3])?;
                    pm.to_writer(&mut out_stream)
                }
            }
            _ => panic!("unknown scenario kind"),
        }
    });
    Outcome { res: res_tag(&res), value, out: out_stream.data.clone(), out_pos: out_stream.pos }
}

fn n_ops(c: &Shared) -> usize {
    c.lock().expect("ctl").log.len()
}

fn writes(s: &Scen) -> bool {
    matches!(s.kind, "hdr_write" | "dir_write" | "dirs_write" | "arch_write" | "arch_rewrite" | "tile_get_big")
}
fn reads(s: &Scen) -> bool {
    !matches!(s.kind, "hdr_write" | "dir_write" | "dirs_write" | "arch_write")
}

/// C15: for every k < N the run in which operation k and all later ones fail
pub fn drive_faults(_seed: u64, tier: &str, out: &mut Out) {
    let mut total_runs = 0u64;
    for s in scenarios(tier) {
        for which in ["in", "out"] {
            if (which == "in" && !reads(&s)) || (which == "out" && !writes(&s)) {
                continue;
            }
            let (ci, co) = (new_ctl(), new_ctl());
            let base = run(&s, &ci, &co, 0);
            let n = if which == "in" { n_ops(&ci) } else { n_ops(&co) };
            // large scenarios: every op near the start and the end, every 7th in between (all in thorough)
            let ks: Vec<usize> = (0..n).filter(|k| tier == "thorough" || n <= 400 || *k < 60 || *k + 60 >= n || k % 41 == 0).collect();
            let mut runs = Vec::with_capacity(ks.len());
            for k in &ks {
                let (fi, fo) = (new_ctl(), new_ctl());
                if which == "in" {
                    fi.lock().expect("ctl").fail_from = Some(*k);
                } else {
                    fo.lock().expect("ctl").fail_from = Some(*k);
                }
                let o = run(&s, &fi, &fo, 0);
                runs.push(json!({"k": k, "res": o.res}));
                total_runs += 1;
            }
            out.emit(json!({"ev": "Fault", "scenario": s.name, "which": which, "n": n, "exhaustive": ks.len() == n,
                            "base_res": base.res, "runs": runs}));
        }
    }
    println!("stat fault_runs={total_runs}");
}

/// C17: crash after any prefix of the recorded operations of an archive write into a fresh stream
pub fn drive_crash(_seed: u64, tier: &str, out: &mut Out) {
    let mut total = 0u64;
    let mut rebuilt = 0u64;
    let mut scs: Vec<Scen> = scenarios(tier).into_iter().filter(|s| s.kind == "arch_write" || s.kind == "arch_rewrite").collect();
    // archives whose tile data runs to hundreds of kilobytes (a writer may treat large sections differently)
    for (comp, is_async) in [(1u8, false), (2, true), (2, false), (1, true)] {
        for kind in ["arch_write", "arch_rewrite"] {
            scs.push(Scen { name: format!("{kind}/c{comp}/n23/{}", if is_async { "async" } else { "sync" }), kind, comp, n: 23, is_async });
        }
    }
    for s in scs {
        let (ci, co) = (new_ctl(), new_ctl());
        co.lock().expect("ctl").keep_bytes = true;
        let base = run(&s, &ci, &co, 0);
        let log = co.lock().expect("ctl").log.clone();
        let n = log.len();
        let final_img = image_after(&[], &log, n);
        let ks: Vec<usize> = (0..=n).filter(|k| tier == "thorough" || n <= 300 || *k < 100 || *k + 100 >= n || k % 9 == 0).collect();
        let mut runs = Vec::new();
        for k in ks {
            let img = image_after(&[], &log, k);
            let r = guard(|| PMTiles::from_bytes(&img[..]).map(|_| ()));
            runs.push(json!({"k": k, "res": res_tag(&r), "same": img == final_img, "len": img.len().min(1 << 30)}));
            total += 1;
        }
        // small archives: the recorded operations themselves, so that TLC rebuilds every prefix image
        let ops_json: Option<Vec<Value>> = if final_img.len() <= 2500 {
            Some(log.iter().map(|r| {
                if r.kind == OpKind::Write && r.ok {
                    json!({"k": "w", "pos": r.pos_before, "bytes": bytes_json(r.bytes.as_deref().unwrap_or(&[]))})
                } else {
                    json!({"k": "o", "pos": r.pos_before.min(1 << 30), "bytes": []})
                }
            }).collect())
        } else {
            None
        };
        let mut ev = json!({"ev": "Crash", "scenario": s.name, "n": n, "base_res": base.res,
                        "final_equals_stream": final_img == base.out, "runs": runs,
                        "write_ops": log.iter().filter(|r| r.kind == OpKind::Write).count(),
                        "seek_ops": log.iter().filter(|r| r.kind == OpKind::Seek).count()});
        if let Some(o) = ops_json {
            ev["ops"] = Value::Array(o);
            rebuilt += 1;
        }
        // the shape of the writer's program (implementation-shaped: compared with MC_IO's writer for drift only):
        // [kind, region] per operation, kind 0 = seek / position query, 1 = write, 2 = flush / close;
        // region 0 = inside the 127 header bytes, 1 = beyond
        let shape: Vec<Value> = log
            .iter()
            .filter(|r| r.ok)
            .map(|r| {
                let k = match r.kind { OpKind::Write => 1, OpKind::Flush | OpKind::Close => 2, _ => 0 };
                json!([k, u8::from(r.pos_before >= 127)])
            })
            .collect();
        if shape.len() <= 400 {
            ev["shape"] = Value::Array(shape);
        }
        out.emit(ev);
    }
    println!("stat crash_scenarios_rebuilt_by_tlc={rebuilt}");
    println!("stat crash_points={total}");
}

/// C13: schedules of short transfers and Pending answers (stimuli: TLC-enumerated compositions)
pub fn drive_sched(seed: u64, tier: &str, stim: Option<&str>, out: &mut Out) {
    let mut rng = Rng::new(seed ^ 0x5343);
    let mut comps: Vec<Vec<usize>> = Vec::new();
    if let Some(p) = stim {
        for line in std::fs::read_to_string(p).expect("stim").lines() {
            if let Ok(v) = serde_json::from_str::<Value>(line) {
                if let Some(a) = v["parts"].as_array() {
                    comps.push(a.iter().map(|x| x.as_u64().unwrap_or(1) as usize).collect());
                }
            }
        }
    }
    let pend_patterns: Vec<Vec<u8>> = vec![vec![], vec![1], vec![0, 1], vec![2, 0, 1], vec![1, 1, 0, 3], vec![0, 0, 0, 2]];
    let mut interner = Interner::default();
    let mut total = 0u64;
    let mut shorts = 0u64;
    let mut pendings = 0u64;
    for s in scenarios(tier) {
        let (ci, co) = (new_ctl(), new_ctl());
        let base = run(&s, &ci, &co, 0);
        let big = s.n > 1000 || s.kind == "tile_get_big";
        // schedules: every TLC composition for the small scenarios; fixed chunk sizes; seeded random ones
        let mut scheds: Vec<Vec<usize>> = Vec::new();
        if !big {
            let stride = if tier == "thorough" { 1 } else { 1 + comps.len() / 260 };
            scheds.extend(comps.iter().skip(seed as usize % stride.max(1)).step_by(stride.max(1)).cloned());
            for k in 1..=(if s.kind.starts_with("hdr") { 127 } else { 24 }) {
                scheds.push(vec![k]);
            }
        } else {
            scheds.extend([vec![1], vec![2], vec![7], vec![4096], vec![1, 100, 3], vec![1000], vec![65_536, 3]]);
        }
        for _ in 0..(if big { 3 } else { 25 }) {
            let l = 1 + rng.below(6) as usize;
            let small = rng.chance(1, 2);
            scheds.push((0..l).map(|_| 1 + rng.below(if small { 4 } else { 300 }) as usize).collect());
        }
        let mut runs = Vec::with_capacity(scheds.len());
        for (i, sc) in scheds.iter().enumerate() {
            let (fi, fo) = (new_ctl(), new_ctl());
            let pend = if s.is_async { pend_patterns[i % pend_patterns.len()].clone() } else { vec![] };
            for c in [&fi, &fo] {
                let mut g = c.lock().expect("ctl");
                g.sched = sc.clone();
                g.pending = pend.clone();
            }
            let o = run(&s, &fi, &fo, 0);
            let cnt = |c: &Shared| {
                let g = c.lock().expect("ctl");
                (g.log.iter().filter(|r| r.ok && r.got < r.req && r.kind != OpKind::Seek).count() as u64, g.pendings_answered)
            };
            let (s1, p1) = cnt(&fi);
            let (s2, p2) = cnt(&fo);
            shorts += s1 + s2;
            pendings += p1 + p2;
            total += 1;
            runs.push(json!({"sched": sc, "pend": pend, "res": o.res, "vtok": interner.tok(&o.value), "otok": interner.tok(&o.out),
                             "pos": o.out_pos.min(1 << 30)}));
        }
        out.emit(json!({"ev": "Sched", "scenario": s.name,
                        "base": {"res": base.res, "vtok": interner.tok(&base.value), "otok": interner.tok(&base.out), "pos": base.out_pos.min(1 << 30)},
                        "runs": runs}));
    }
    println!("stat sched_runs={total}");
    println!("stat short_transfers_granted={shorts}");
    println!("stat pending_answers={pendings}");
}

/// C18: archive writes starting at stream position P (events for Trace_Archive)
pub fn drive_startpos(seed: u64, tier: &str, out: &mut Out) {
    let mut rng = Rng::new(seed ^ 0x5031);
    let mut ctx = Ctx::new();
    let mut ps: Vec<u64> = vec![0, 1, 10, 127, 4096, 4097, 16384, 70_000];
    for _ in 0..(if tier == "thorough" { 8 } else { 3 }) {
        ps.push(rng.below(20_000));
    }
    let sizes: Vec<(usize, u8)> = if tier == "thorough" { vec![(0, 2), (7, 1), (7, 2), (7, 3), (7, 4), (4300, 1), (4300, 2)] } else { vec![(0, 2), (7, 1), (7, 3), (4300, 1)] };
    for (n, c) in sizes {
        for &p in &ps {
            for is_async in [false, true] {
                for exact_len in [false, true] {
                    if n > 1000 && (exact_len || (p != 10 && p != 0 && p != 4096 && p != 4097)) {
                        continue;
                    }
                    let s = Scen { name: format!("arch_write/c{c}/n{n}"), kind: "arch_write", comp: c, n, is_async };
                    let (ci, co) = (new_ctl(), new_ctl());
                    // run() prefills p+40 marker bytes; for exact_len the stream is exactly p bytes long
                    let o = if exact_len { run_exact(&s, &ci, &co, p) } else { run(&s, &ci, &co, p) };
                    let log = co.lock().expect("ctl").log.clone();
                    let min_write = log.iter().filter(|r| r.kind == OpKind::Write && r.ok && r.got > 0).map(|r| r.pos_before).min().unwrap_or(p);
                    let prefix_intact = o.out.len() as u64 >= p && o.out[..p as usize].iter().all(|b| *b == 0xAB);
                    let tiles: Vec<Value> = archive_tiles(n).iter().map(|(id, cnt)| json!({"id": limbs(*id), "tok": ctx.toks.tok(cnt)})).collect();
                    let mut ev = json!({"ev": "SaveAt", "p": limbs(p), "api": u8::from(is_async), "comp": c, "res": o.res, "exact_len": exact_len,
                                        "min_write_pos": limbs(min_write), "prefix_intact": prefix_intact,
                                        "final_pos": limbs(o.out_pos), "stream_len": limbs(o.out.len() as u64), "tiles": tiles});
                    if o.res == "ok" && o.out.len() as u64 >= p {
                        ev["file"] = ctx.dissect(&o.out[p as usize..]);
                        // where the archive would be found if offsets were absolute (diagnostic only)
                        ev["magic_at_zero"] = json!(o.out.starts_with(b"PMTiles"));
                    }
                    out.emit(ev);
                    ctx.bump("startpos_runs");
                    if p > 0 {
                        ctx.bump("startpos_runs_p_gt_0");
                    }
                }
            }
        }
    }
    ctx.print_stats();
}

fn run_exact(s: &Scen, inp: &Shared, outp: &Shared, p0: u64) -> Outcome {
    // like run(), but the stream holds exactly p0 marker bytes (writing starts at its end)
    let comp = comp_of(s.comp);
    let mut out_stream = TStream::new(vec![0xAB; p0 as usize], outp.clone());
    out_stream.pos = p0;
    let _ = inp;
    let is_async = s.is_async;
    let res: Result<std::io::Result<()>, String> = guard(|| -> std::io::Result<()> {
        if is_async {
            let mut pm = PMTiles::<futures::io::Cursor<Vec<u8>>>::default();
            pm.internal_compression = comp;
            pm.meta_data.insert("a".into(), json!("b"));
            for (id, c) in archive_tiles(s.n) {
                pm.add_tile(id, c)?;
            }
            block_on(pm.to_async_writer(&mut out_stream))
        } else {
            let mut pm = PMTiles::<std::io::Cursor<Vec<u8>>>::default();
            pm.internal_compression = comp;
            pm.meta_data.insert("a".into(), json!("b"));
            for (id, c) in archive_tiles(s.n) {
                pm.add_tile(id, c)?;
            }
            pm.to_writer(&mut out_stream)
        }
    });
    Outcome { res: res_tag(&res), value: vec![], out: out_stream.data.clone(), out_pos: out_stream.pos }
}

/// C20: byte ranges read while opening and while looking tiles up (events for Trace_Archive)
pub fn drive_reads(seed: u64, tier: &str, files: Vec<Vec<u8>>, out: &mut Out) {
    let mut rng = Rng::new(seed ^ 0x5244);
    let mut ctx = Ctx::new();
    let _ = tier;
    for (fi, bytes) in files.iter().enumerate() {
        let f = ctx.dissect(bytes);
        if f.get("undissectable").is_some() {
            continue;
        }
        let tiles: Vec<(u64, u64)> = f["tiles"].as_array().map_or(vec![], |t| t.iter().map(|e| (from_limbs(&e["id"]), from_limbs(&e["run"]))).collect());
        out.emit(json!({"ev": "File", "file": f, "foreign": true}));
        let ranges_json = |c: &Shared, from: usize| -> Vec<Value> {
            c.lock().expect("ctl").log[from..]
                .iter()
                .filter(|r| r.kind == OpKind::Read && r.ok && r.got > 0)
                .map(|r| json!([limbs(r.pos_before), r.got.min(1 << 30)]))
                .collect()
        };
        for (ai, api) in ["sync", "async", "sync_partial", "async_partial"].iter().enumerate() {
            let ctl = new_ctl();
            let input = TStream::new(bytes.clone(), ctl.clone());
            let hi = tiles.get(tiles.len() / 2).map_or(5, |t| t.0);
            // lookups: present ids (first / middle of run / last), absent neighbours, random
            let mut ids: Vec<u64> = Vec::new();
            for (id, run) in tiles.iter().take(if tiles.len() > 600 { 0 } else { tiles.len() }) {
                ids.extend([*id, id + run / 2, id + run - 1, id + run, id.wrapping_sub(1)]);
            }
            for _ in 0..(if tiles.len() > 600 { 25 } else { 120 }) {
                if let Some((id, run)) = tiles.get(rng.below(tiles.len().max(1) as u64) as usize) {
                    ids.push(id + rng.below(*run));
                }
                ids.push(rng.next());
            }
            macro_rules! lookups {
                ($pm:ident, $get:expr) => {{
                    let mut evs = Vec::new();
                    for id in &ids {
                        let from = n_ops(&ctl);
                        let r: Result<std::io::Result<Option<Vec<u8>>>, String> = $get(&mut $pm, *id);
                        let tag = match &r { Ok(Ok(Some(_))) => "some", Ok(Ok(None)) => "none", Ok(Err(_)) => "err", Err(_) => "panic" };
                        evs.push(json!({"id": limbs(*id), "res": tag, "reads": ranges_json(&ctl, from)}));
                    }
                    evs
                }};
            }
            let partial = ai >= 2;
            let (res, lookup_evs): (&str, Vec<Value>) = if ai % 2 == 0 {
                let r = guard(|| if partial { PMTiles::from_reader_partially(input, ..=hi) } else { PMTiles::from_reader(input) });
                match r {
                    Ok(Ok(mut pm)) => {
                        let open_n = n_ops(&ctl);
                        let _ = open_n;
                        ("ok", lookups!(pm, |pm: &mut PMTiles<TStream>, id| guard(|| pm.get_tile_by_id(id))))
                    }
                    Ok(Err(_)) => ("err", vec![]),
                    Err(_) => ("panic", vec![]),
                }
            } else {
                let r = guard(|| if partial { block_on(PMTiles::from_async_reader_partially(input, ..=hi)) } else { block_on(PMTiles::from_async_reader(input)) });
                match r {
                    Ok(Ok(mut pm)) => ("ok", lookups!(pm, |pm: &mut PMTiles<TStream>, id| guard(|| block_on(pm.get_tile_by_id_async(id))))),
                    Ok(Err(_)) => ("err", vec![]),
                    Err(_) => ("panic", vec![]),
                }
            };
            // reads of the open = all reads before the first lookup; recompute from the log
            let first_lookup_from = {
                // the lookups logged their own slices; the open's reads are the log minus those
                let total: usize = lookup_evs.iter().map(|e| e["reads"].as_array().map_or(0, |a| a.len())).sum();
                let all = ranges_json(&ctl, 0);
                all.len() - total
            };
            let all = ranges_json(&ctl, 0);
            let open_reads: Vec<Value> = all[..first_lookup_from].to_vec();
            out.emit(json!({"ev": "OpenReads", "api": api, "res": res, "partial": partial, "hi": limbs(hi), "reads": open_reads}));
            for chunk in lookup_evs.chunks(200) {
                out.emit(json!({"ev": "TileReads", "api": api, "partial": partial, "hi": limbs(hi), "cases": chunk}));
            }
            ctx.bump("read_traces");
        }
        let _ = fi;
        out.emit(json!({"ev": "Reset", "cut": true}));
    }
    ctx.print_stats();
}
