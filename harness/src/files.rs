//! File-level drivers: archives from other writers (C03), range-filtered opens (C11), documented
//! rejections on open (C19), the directory writer with leaf spill (C06), archives steered onto
//! the root-budget window (C01/C02/C06).

use crate::archive::*;
use crate::store::{exec, Emitter, Op};
use crate::util::*;
use pmtiles2::util::{read_directories, read_directories_async, write_directories, write_directories_async, WriteDirsOverflowStrategy};
use pmtiles2::{Compression, Directory, Entry, PMTiles};
use serde_json::{json, Value};
use std::io::Cursor;
use std::ops::Bound;

pub const FIXTURES: [&str; 3] = [
    "/repo/test/stamen_toner(raster)CC-BY+ODbL_z3.pmtiles",
    "/repo/test/protomaps(vector)ODbL_firenze.pmtiles",
    "/repo/test/protomaps_vector_planet_odbl_z10_without_data.pmtiles",
];

pub struct Ctx {
    pub toks: Interner,
    pub metas: Interner,
    pub stats: std::collections::BTreeMap<String, u64>,
}

impl Ctx {
    pub fn new() -> Self {
        let mut metas = Interner::default();
        metas.tok(b"{}"); // token 1 = "{}" (convention shared with Trace_Archive)
        Ctx { toks: Interner::default(), metas, stats: Default::default() }
    }
    pub fn bump(&mut self, k: &str) {
        *self.stats.entry(k.to_string()).or_insert(0) += 1;
    }
    pub fn print_stats(&self) {
        for (k, v) in &self.stats {
            println!("stat {k}={v}");
        }
    }
    pub fn dissect(&mut self, bytes: &[u8]) -> Value {
        let f = Dissector { toks: &mut self.toks, metas: &mut self.metas }.dissect(bytes);
        if f["leaves"].as_array().map_or(false, |l| !l.is_empty()) {
            self.bump("files_with_leaf_directories");
        }
        f
    }
}

fn observed_json<R>(pm: &PMTiles<R>, metas: &mut Interner) -> Value {
    let degs = [pm.min_longitude, pm.min_latitude, pm.max_longitude, pm.max_latitude, pm.center_longitude, pm.center_latitude];
    let mut ok = true;
    let coords: Vec<i64> = degs
        .iter()
        .map(|d| {
            let g = (d * 1e7).round();
            if (g / 1e7 - d).abs() <= 2.0 * f64::EPSILON * d.abs() && g.abs() <= 2_147_483_648.0 {
                g as i64
            } else {
                ok = false;
                0
            }
        })
        .collect();
    json!({"ic": comp_code(pm.internal_compression), "tc": comp_code(pm.tile_compression), "tt": tt_code(pm.tile_type),
           "minz": pm.min_zoom, "maxz": pm.max_zoom, "cz": pm.center_zoom, "coords": coords, "coords_e7": ok,
           "meta": metas.tok(&canonical_meta(&Value::Object(pm.meta_data.clone())))})
}

pub type B = (Bound<u64>, Bound<u64>);

fn bound_json(b: &Bound<u64>) -> Value {
    match b {
        Bound::Included(v) => json!({"k": "inc", "v": limbs(*v)}),
        Bound::Excluded(v) => json!({"k": "exc", "v": limbs(*v)}),
        Bound::Unbounded => json!({"k": "unb", "v": limbs(0)}),
    }
}

/// tiles of an opened archive as [{id, tok}] (every tile is read)
fn tiles_sync<R: std::io::Read + std::io::Seek>(pm: &mut PMTiles<R>, toks: &mut Interner, with_data: bool) -> (Vec<Value>, bool) {
    let ids: Vec<u64> = pm.tile_ids().into_iter().copied().collect();
    let mut out = Vec::with_capacity(ids.len());
    let mut all_ok = true;
    for id in ids {
        let tok = if with_data {
            match guard(|| pm.get_tile_by_id(id)) {
                Ok(Ok(Some(b))) => toks.tok(&b),
                _ => {
                    all_ok = false;
                    0
                }
            }
        } else {
            0
        };
        out.push(json!({"id": limbs(id), "tok": tok}));
    }
    (out, all_ok)
}

fn tiles_async<R: futures::AsyncRead + futures::AsyncSeek + Send + Unpin>(pm: &mut PMTiles<R>, toks: &mut Interner, with_data: bool) -> (Vec<Value>, bool) {
    let ids: Vec<u64> = pm.tile_ids().into_iter().copied().collect();
    let mut out = Vec::with_capacity(ids.len());
    let mut all_ok = true;
    for id in ids {
        let tok = if with_data {
            match guard(|| block_on(pm.get_tile_by_id_async(id))) {
                Ok(Ok(Some(b))) => toks.tok(&b),
                _ => {
                    all_ok = false;
                    0
                }
            }
        } else {
            0
        };
        out.push(json!({"id": limbs(id), "tok": tok}));
    }
    (out, all_ok)
}

/// open `bytes` (full or range-filtered) through one API and log what it yields
pub fn open_event(ctx: &mut Ctx, bytes: &[u8], api: &str, range: Option<&B>, with_data: bool) -> Value {
    let mut ev = match range {
        None => json!({"ev": "Opened", "api": api}),
        Some(r) => json!({"ev": "Partial", "api": api, "lo": bound_json(&r.0), "hi": bound_json(&r.1)}),
    };
    let full: B = (Bound::Unbounded, Bound::Unbounded);
    let r = range.unwrap_or(&full).clone();
    match api {
        "from_bytes" | "from_reader" => {
            let res = guard(|| {
                if api == "from_bytes" {
                    if range.is_some() { PMTiles::from_bytes_partially(bytes, r) } else { PMTiles::from_bytes(bytes) }
                } else if range.is_some() {
                    PMTiles::from_reader_partially(Cursor::new(bytes), r)
                } else {
                    PMTiles::from_reader(Cursor::new(bytes))
                }
            });
            ev["res"] = json!(res_tag(&res));
            if let Ok(Ok(mut pm)) = res {
                let (tiles, ok) = tiles_sync(&mut pm, &mut ctx.toks, with_data);
                if !ok {
                    ev["res"] = json!("tile_read_failed");
                }
                ev["tiles"] = Value::Array(tiles);
                if range.is_none() {
                    ev["obs"] = observed_json(&pm, &mut ctx.metas);
                }
            }
        }
        _ => {
            let res = guard(|| {
                if range.is_some() {
                    block_on(PMTiles::from_async_reader_partially(futures::io::Cursor::new(bytes), r))
                } else {
                    block_on(PMTiles::from_async_reader(futures::io::Cursor::new(bytes)))
                }
            });
            ev["res"] = json!(res_tag(&res));
            if let Ok(Ok(mut pm)) = res {
                let (tiles, ok) = tiles_async(&mut pm, &mut ctx.toks, with_data);
                if !ok {
                    ev["res"] = json!("tile_read_failed");
                }
                ev["tiles"] = Value::Array(tiles);
                if range.is_none() {
                    ev["obs"] = observed_json(&pm, &mut ctx.metas);
                }
            }
        }
    }
    ev
}

fn readdirs_event(bytes: &[u8], api: &str, range: &B) -> Value {
    let hdr = &bytes[..127];
    let le = |o: usize| u64::from_le_bytes(hdr[o..o + 8].try_into().expect("8"));
    let comp = comp_of(hdr[97].min(4));
    let (root, leaf_off) = ((le(8), le(16)), le(40));
    let res = guard(|| {
        if api == "sync" {
            read_directories(&mut Cursor::new(bytes), comp, root, leaf_off, range.clone())
        } else {
            block_on(read_directories_async(&mut futures::io::Cursor::new(bytes), comp, root, leaf_off, range.clone()))
        }
    });
    let mut ev = json!({"ev": "ReadDirs", "api": api, "lo": bound_json(&range.0), "hi": bound_json(&range.1), "res": res_tag(&res)});
    if let Ok(Ok(m)) = res {
        ev["map"] = Value::Array(
            m.iter().map(|(id, ol)| json!({"id": limbs(*id), "off": limbs(ol.offset), "len": limbs(u64::from(ol.length))})).collect(),
        );
    }
    ev
}

fn find_event(entries: &[HEntry], rng: &mut Rng) -> Value {
    let dir: Directory = entries
        .iter()
        .map(|e| Entry { tile_id: e.id, run_length: e.run as u32, length: e.len as u32, offset: e.off })
        .collect::<Vec<_>>()
        .into();
    let all: Vec<Entry> = dir.clone().into();
    let mut ids = vec![0u64, 1, u64::MAX, rng.next()];
    for e in entries.iter().take(8) {
        // IDs a multiple of 2^32 beyond a run (plus less than the run length)
        for k in [1u64, 3, 1 << 31] {
            ids.push(e.id.wrapping_add(k << 32));
            ids.push(e.id.wrapping_add(k << 32).wrapping_add(e.run.saturating_sub(1)));
        }
    }
    for e in entries {
        for d in [0u64, 1] {
            ids.push(e.id.wrapping_sub(d));
            ids.push(e.id.wrapping_add(d));
            ids.push(e.id.wrapping_add(e.run).wrapping_sub(d));
            ids.push(e.id.wrapping_add(e.run).wrapping_add(d));
        }
    }
    let cases: Vec<Value> = ids
        .iter()
        .map(|id| {
            let r = guard(|| dir.find_entry_for_tile_id(*id).map(|e| all.iter().position(|x| x == e).map_or(0, |p| p + 1)));
            match r {
                Ok(Some(p)) => json!({"id": limbs(*id), "res": p}),
                Ok(None) => json!({"id": limbs(*id), "res": 0}),
                Err(_) => json!({"id": limbs(*id), "res": -1}),
            }
        })
        .collect();
    json!({"ev": "Find", "dir": Value::Array(entries.iter().map(hentry_json).collect()), "cases": cases})
}

/// ranges steered onto the structure of the archive
fn steered_ranges(rng: &mut Rng, entries: &[(u64, u64)], leaf_firsts: &[u64], n: usize) -> Vec<B> {
    let mut pts: Vec<u64> = vec![0, 1, u64::MAX, u64::MAX - 1];
    for &(id, run) in entries.iter().take(200) {
        for d in [0u64, 1] {
            pts.push(id.wrapping_sub(d));
            pts.push(id.wrapping_add(d));
            pts.push(id.wrapping_add(run).wrapping_sub(d));
            pts.push(id.wrapping_add(run).wrapping_add(d));
        }
    }
    for &f in leaf_firsts {
        pts.extend([f.wrapping_sub(1), f, f.wrapping_add(1)]);
    }
    // bounds whose distance to a run start is a multiple of 2^32 (plus less than the run length)
    for &(id, run) in entries.iter().take(12) {
        for k in [1u64, 2, 1 << 31] {
            pts.push(id.wrapping_add(k << 32));
            pts.push(id.wrapping_add(k << 32).wrapping_add(run.saturating_sub(1)));
        }
    }
    let mk = |k: u64, v: u64| match k {
        0 => Bound::Included(v),
        1 => Bound::Excluded(v),
        _ => Bound::Unbounded,
    };
    let mut out: Vec<B> = Vec::new();
    // every bound-kind pair at 0 and MAX, and the documented corner `..0`
    for lk in 0..3 {
        for hk in 0..3 {
            out.push((mk(lk, 0), mk(hk, 0)));
            out.push((mk(lk, u64::MAX), mk(hk, u64::MAX)));
            out.push((mk(lk, 0), mk(hk, u64::MAX)));
        }
    }
    while out.len() < n {
        let (a, b) = (*rng.pick(&pts), *rng.pick(&pts));
        let (a, b) = if rng.chance(1, 6) { (a.max(b), a.min(b)) } else { (a.min(b), a.max(b)) }; // some inverted
        let a = if rng.chance(1, 10) { rng.next() } else { a };
        out.push((mk(rng.below(3), a), mk(rng.below(3), b)));
    }
    out
}

fn file_structure(f: &Value) -> (Vec<(u64, u64)>, Vec<u64>) {
    let entries: Vec<(u64, u64)> = f["tiles"].as_array().map_or(vec![], |t| t.iter().map(|e| (from_limbs(&e["id"]), from_limbs(&e["run"]))).collect());
    let firsts: Vec<u64> = f["leaves"].as_array().map_or(vec![], |ls| {
        ls.iter().filter_map(|l| l["entries"].as_array().and_then(|e| e.first()).map(|e| from_limbs(&e["id"]))).collect()
    });
    (entries, firsts)
}

fn layout_from_stimulus(v: &Value, ic: u8, rng: &mut Rng) -> Layout {
    let tiles: Vec<HEntry> = v["tiles"]
        .as_array()
        .expect("tiles")
        .iter()
        .map(|e| HEntry { id: from_limbs(&e["id"]), run: from_limbs(&e["run"]), len: from_limbs(&e["len"]), off: from_limbs(&e["off"]) })
        .collect();
    let split = v["split"].as_u64().unwrap_or(2) as usize;
    let shape = v["shape"].as_str().unwrap_or("root");
    let leaf = |ts: &[HEntry]| Node::Leaf(ts.iter().cloned().map(Node::Tile).collect());
    let root: Vec<Node> = match shape {
        "root" => tiles.iter().cloned().map(Node::Tile).collect(),
        "leaves" => tiles.chunks(split).map(leaf).collect(),
        "nested" => {
            let leaves: Vec<Node> = tiles.chunks(split).map(leaf).collect();
            leaves.chunks(2).map(|c| Node::Leaf(c.to_vec())).collect()
        }
        _ => {
            // mixed: first tile directly in the root, the rest in leaves, the last leaf nested
            let mut r: Vec<Node> = Vec::new();
            if let Some((first, rest)) = tiles.split_first() {
                r.push(Node::Tile(first.clone()));
                let mut leaves: Vec<Node> = rest.chunks(split).map(leaf).collect();
                if let Some(last) = leaves.pop() {
                    r.extend(leaves);
                    r.push(Node::Leaf(vec![last]));
                }
            }
            r
        }
    };
    let data_len = tiles.iter().map(|e| e.off + e.len).max().unwrap_or(0) as usize;
    let order: Vec<u8> = v["order"].as_array().expect("order").iter().map(|x| x.as_u64().expect("o") as u8).collect();
    Layout {
        ic,
        order: [order[0], order[1], order[2], order[3]],
        gap: v["gap"].as_u64().unwrap_or(0) as u8,
        root,
        meta: if v["meta"] == "empty" { vec![] } else { br#"{"name":"foreign","n":[1,2,{"x":null}]}"#.to_vec() },
        data: rng.bytes(data_len + 3),
        clustered: false,
        small: [rng.below(5) as u8, rng.below(6) as u8, rng.next() as u8, rng.next() as u8, rng.next() as u8],
        coords: [rng.next() as i32, rng.next() as i32, 0, -1, i32::MAX, i32::MIN],
        leaves_reversed: false,
    }
}

fn exp_tiles_json(l: &Layout) -> Value {
    fn walk(ns: &[Node], out: &mut Vec<Value>) {
        for n in ns {
            match n {
                Node::Tile(e) => out.push(hentry_json(e)),
                Node::Leaf(c) => walk(c, out),
            }
        }
    }
    let mut out = Vec::new();
    walk(&l.root, &mut out);
    Value::Array(out)
}

/// a big random foreign layout: thousands of entries, runs, dedup, nested leaves
fn random_layout(rng: &mut Rng, n: usize, ic: u8) -> Layout {
    let mut tiles = Vec::with_capacity(n);
    let mut id = rng.below(1000);
    let mut offs: Vec<(u64, u64)> = Vec::new();
    let mut hwm = 0u64;
    for _ in 0..n {
        id += rng.below(3) * rng.below(50);
        let run = if rng.chance(1, 6) { 2 + rng.below(30) } else { 1 };
        let (off, len) = if !offs.is_empty() && rng.chance(1, 4) {
            *rng.pick(&offs)
        } else {
            let len = 1 + rng.below(40);
            let off = hwm + if rng.chance(1, 10) { rng.below(5) } else { 0 };
            hwm = off + len;
            offs.push((off, len));
            (off, len)
        };
        tiles.push(HEntry { id, run, len, off });
        id += run;
    }
    let per_leaf = 1 + rng.below(400) as usize;
    let leaves: Vec<Node> = tiles.chunks(per_leaf).map(|c| Node::Leaf(c.iter().cloned().map(Node::Tile).collect())).collect();
    let root: Vec<Node> = match rng.below(3) {
        0 if n < 3000 => tiles.iter().cloned().map(Node::Tile).collect(),
        1 => leaves.chunks(1 + rng.below(6) as usize).map(|c| Node::Leaf(c.to_vec())).collect(),
        _ => leaves,
    };
    Layout {
        ic,
        order: *rng.pick(&[[0, 1, 2, 3], [0, 2, 1, 3], [0, 3, 2, 1], [0, 1, 3, 2]]),
        gap: rng.below(3) as u8,
        root,
        meta: if rng.chance(1, 3) { vec![] } else { br#"{"k":"v"}"#.to_vec() },
        data: rng.bytes(hwm as usize + 2),
        clustered: false,
        small: [1, 1, 0, 14, 7],
        coords: [-1_800_000_000, -850_511_287, 1_800_000_000, 850_511_287, 0, 0],
        leaves_reversed: false,
    }
}

/// archives from other writers (TLC layouts, random layouts), the Go fixtures, and -- for "c11" / "c20" --
/// library-written archives with real leaf spill
pub fn collect_files(rng: &mut Rng, seed: u64, tier: &str, stim: Option<&str>, mode: &str) -> Vec<(Vec<u8>, Option<Value>, bool)> {
    let mut files: Vec<(Vec<u8>, Option<Value>, bool)> = Vec::new(); // bytes, exp_tiles, with_data
    if let Some(path) = stim {
        let text = std::fs::read_to_string(path).expect("stimuli");
        let stride = if tier == "thorough" { 1 } else if mode == "c03" { 5 } else { 16 };
        for (i, line) in text.lines().enumerate() {
            if line.trim().is_empty() || (i as u64 + seed) % stride != 0 {
                continue;
            }
            let v: Value = serde_json::from_str(line).expect("stimulus");
            let ic = 1 + ((i / stride as usize) % 4) as u8;
            // a root that is not the first section must still end inside the first 16 KiB: all sections are tiny here
            let l = layout_from_stimulus(&v, ic, rng);
            files.push((assemble(&l), Some(exp_tiles_json(&l)), true));
        }
    }
    let n_big = if tier == "thorough" { 12 } else { 4 };
    for k in 0..n_big {
        let n = if tier == "thorough" && k % 3 == 2 { 4000 + rng.below(3000) as usize } else if k % 2 == 1 { 1500 + rng.below(1000) as usize } else { 50 + rng.below(600) as usize };
        let l = random_layout(rng, n, 1 + (k % 4) as u8);
        // spread the large files over the trace so that parallel validation chunks are balanced
        let at = files.len() * (k + 1) / (n_big + 1);
        files.insert(at, (assemble(&l), Some(exp_tiles_json(&l)), true));
    }
    // very regular layouts (consecutive IDs, equal lengths, back-to-back data): directories that compress to fewer
    // bytes than they have entries -- root only and in leaves, every codec
    for (k, n) in [(0usize, 700usize), (1, 5000), (2, 5000), (3, 300)] {
        let tiles: Vec<HEntry> = (0..n as u64).map(|i| HEntry { id: 50 + i, run: 1, len: 20, off: 20 * i }).collect();
        let root: Vec<Node> = if k == 2 {
            tiles.chunks(1000).map(|c| Node::Leaf(c.iter().cloned().map(Node::Tile).collect())).collect()
        } else {
            tiles.iter().cloned().map(Node::Tile).collect()
        };
        let l = Layout { ic: 2 + (k % 3) as u8, order: [0, 1, 2, 3], gap: 0, root, meta: b"{}".to_vec(), data: rng.bytes(20 * n),
                         clustered: true, small: [1, 1, 0, 5, 2], coords: [0; 6], leaves_reversed: false };
        let at = files.len() * (k + 1) / 5;
        files.insert(at, (assemble(&l), Some(exp_tiles_json(&l)), true));
    }
    // leaf directories that are large as stored (tens of kilobytes each, well beyond any read-ahead block a reader might
    // use): 9000 irregular entries in two leaves, uncompressed and gzip
    for (k, ic) in [(0usize, 1u8), (1, 2)] {
        let mut l = random_layout(rng, 9000, ic);
        let mut tiles: Vec<Node> = Vec::new();
        fn flat(ns: &[Node], out: &mut Vec<Node>) {
            for n in ns {
                match n {
                    Node::Tile(_) => out.push(n.clone()),
                    Node::Leaf(c) => flat(c, out),
                }
            }
        }
        flat(&l.root, &mut tiles);
        let cut = 6000.min(tiles.len());
        l.root = vec![Node::Leaf(tiles[..cut].to_vec()), Node::Leaf(tiles[cut..].to_vec())];
        l.order = [0, 1, 2, 3];
        let at = files.len() * (k + 1) / 3;
        files.insert(at, (assemble(&l), Some(exp_tiles_json(&l)), true));
    }
    // fixtures written by the upstream Go writer (the planet fixture has no tile data; thorough only)
    for (k, p) in FIXTURES.iter().enumerate() {
        if k == 2 && tier != "thorough" {
            continue;
        }
        if let Ok(b) = std::fs::read(p) {
            files.push((b, None, k != 2));
        }
    }
    // library-written archives with real leaf spill (for the range filter on leaves)
    if mode == "c11" || mode == "c20" {
        for (n, ic) in [(6000usize, 1u8), (9000, 2), (300, 3)] {
            let ids: Vec<u64> = {
                let mut v = Vec::new();
                let mut id = rng.below(100);
                for _ in 0..n {
                    // the 6000-tile archive has consecutive IDs, so the tile before every leaf's first ID exists
                    id += if n == 6000 { 1 } else { 1 + rng.below(4) * rng.below(4) };
                    v.push(id);
                }
                v
            };
            let tiles: Vec<(u64, Vec<u8>)> = ids.iter().map(|id| (*id, { let l = 1 + rng.below(300) as usize; rng.bytes(l) })).collect();
            let mut set = Settings::default_for(1, 1);
            set.ic = ic;
            let obs = exec(&[Op::New { tt: 1, tc: 1, api: 0 }, Op::Set(set), Op::Bulk(tiles), Op::Save], false);
            if let Some(b) = obs.last().and_then(|o| o.file.clone()) {
                files.push((b, None, true));
            }
        }
    }
    files
}

/// C03 (mode "c03") and C11 (mode "c11")
pub fn drive_files(seed: u64, tier: &str, stim: Option<&str>, mode: &str, out: &mut Out) {
    let mut rng = Rng::new(seed ^ 0x46494c45);
    let mut ctx = Ctx::new();
    let files = collect_files(&mut rng, seed, tier, stim, mode);
    for (fi, (bytes, exp, with_data)) in files.iter().enumerate() {
        let f = ctx.dissect(bytes);
        if f.get("undissectable").is_some() {
            ctx.bump("undissectable_files");
            continue;
        }
        let (entries, firsts) = file_structure(&f);
        let n_tiles: u64 = entries.iter().map(|e| e.1).sum();
        if n_tiles > 400_000 {
            continue;
        }
        let mut ev = json!({"ev": "File", "file": f.clone(), "foreign": true});
        if let Some(e) = exp {
            ev["exp_tiles"] = e.clone();
        }
        if !with_data {
            // tile bytes are not in the file: tokens are 0 on both sides
            ev["nodata"] = json!(true);
        }
        out.emit(ev);
        ctx.bump("files");
        let full: B = (Bound::Unbounded, Bound::Unbounded);
        if mode == "c03" {
            for api in ["from_bytes", "from_reader", "from_async_reader"] {
                if n_tiles > 20_000 && api != "from_reader" {
                    continue;
                }
                out.emit(open_event(&mut ctx, bytes, api, None, *with_data));
            }
            for api in ["sync", "async"] {
                out.emit(readdirs_event(bytes, api, &full));
            }
            // lookups in single directories: the root and up to 6 leaves
            let mut dirs: Vec<Vec<HEntry>> = Vec::new();
            let parse = |v: &Value| -> Vec<HEntry> {
                v.as_array().map_or(vec![], |a| {
                    a.iter()
                        .map(|e| HEntry { id: from_limbs(&e["id"]), run: from_limbs(&e["run"]), len: from_limbs(&e["len"]), off: from_limbs(&e["off"]) })
                        .collect()
                })
            };
            dirs.push(parse(&f["root"]["entries"]));
            if let Some(ls) = f["leaves"].as_array() {
                for l in ls.iter().take(6) {
                    dirs.push(parse(&l["entries"]));
                }
            }
            for d in dirs {
                if d.len() <= 600 {
                    out.emit(find_event(&d, &mut rng));
                }
            }
        } else {
            let n_ranges = if n_tiles > 3000 { 30 } else if tier == "thorough" { 150 } else { 45 };
            for (k, r) in steered_ranges(&mut rng, &entries, &firsts, n_ranges).iter().enumerate() {
                let api = ["from_bytes", "from_reader", "from_async_reader"][(k + fi) % 3];
                out.emit(open_event(&mut ctx, bytes, api, Some(r), *with_data));
                if k % 3 == 0 {
                    out.emit(readdirs_event(bytes, if k % 2 == 0 { "sync" } else { "async" }, r));
                }
            }
        }
        out.emit(json!({"ev": "Reset", "cut": true}));
    }
    ctx.print_stats();
}

/// C19 on open: metadata that is valid JSON but not an object; unknown internal compression
pub fn drive_reject(seed: u64, out: &mut Out) {
    let mut rng = Rng::new(seed ^ 0x524a);
    let metas: [(&str, &[u8]); 8] = [
        ("null", b"null"), ("bool", b"true"), ("bool", b"false"), ("number", b"7"), ("number", b"-1.5e3"),
        ("string", b"\"s\""), ("array", b"[1]"), ("array", b"[]"),
    ];
    let tile = HEntry { id: 3, run: 1, len: 4, off: 0 };
    let open_all = |bytes: &[u8]| -> Vec<Value> {
        let mut obs = Vec::new();
        for api in ["from_bytes", "from_reader", "from_async_reader", "from_bytes_partially"] {
            let r: Result<std::io::Result<()>, String> = guard(|| match api {
                "from_bytes" => PMTiles::from_bytes(bytes).map(|_| ()),
                "from_reader" => PMTiles::from_reader(Cursor::new(bytes)).map(|_| ()),
                "from_bytes_partially" => PMTiles::from_bytes_partially(bytes, 0..10).map(|_| ()),
                _ => block_on(PMTiles::from_async_reader(futures::io::Cursor::new(bytes))).map(|_| ()),
            });
            obs.push(json!({"api": api, "res": res_tag(&r)}));
        }
        obs
    };
    for ic in 1u8..=4 {
        for (kind, raw) in metas {
            for with_tile in [false, true] {
                let l = Layout {
                    ic,
                    order: [0, 1, 2, 3],
                    gap: 0,
                    root: if with_tile { vec![Node::Tile(tile.clone())] } else { vec![] },
                    meta: raw.to_vec(),
                    data: rng.bytes(8),
                    clustered: true,
                    small: [1, 1, 0, 0, 0],
                    coords: [0; 6],
                    leaves_reversed: false,
                };
                let bytes = assemble(&l);
                out.emit(json!({"ev": "OpenReject", "hdr": bytes_json(&bytes[..127]), "meta_kind": kind, "obs": open_all(&bytes)}));
            }
        }
        // unknown internal compression on open: a valid archive whose internal-compression byte is 0
        let l = Layout {
            ic,
            order: [0, 1, 2, 3],
            gap: 0,
            root: vec![Node::Tile(tile.clone())],
            meta: b"{}".to_vec(),
            data: rng.bytes(8),
            clustered: true,
            small: [1, 1, 0, 0, 0],
            coords: [0; 6],
            leaves_reversed: false,
        };
        let mut bytes = assemble(&l);
        bytes[97] = 0;
        out.emit(json!({"ev": "OpenReject", "hdr": bytes_json(&bytes[..127]), "meta_kind": "object", "obs": open_all(&bytes)}));
    }
    // unknown internal compression, no tiles and no metadata: nothing needs to be decompressed, it must be refused all the same
    for ic in 1u8..=4 {
        let l = Layout { ic, order: [0, 1, 2, 3], gap: 0, root: vec![], meta: vec![], data: vec![], clustered: true,
                         small: [1, 1, 0, 0, 0], coords: [0; 6], leaves_reversed: false };
        let mut bytes = assemble(&l);
        bytes[97] = 0;
        out.emit(json!({"ev": "OpenReject", "hdr": bytes_json(&bytes[..127]), "meta_kind": "empty", "obs": open_all(&bytes)}));
    }
    // unknown internal compression on write (sync and async values, with and without tiles)
    let mut em = Emitter::new();
    for api in [0u8, 1] {
        for with_tiles in [false, true] {
            let mut set = Settings::random(&mut rng, 0);
            set.ic = 0;
            let mut ops = vec![Op::New { tt: 1, tc: 1, api }, Op::Set(set)];
            if with_tiles {
                ops.push(Op::Add { id: 5, c: vec![1, 2, 3] });
            }
            ops.push(Op::Save);
            ops.push(Op::Reset);
            em.emit(&exec(&ops, false), out);
        }
    }
}

// ------------------------------------------------------------------------------------------
// C06: the directory writer

fn irregular_entries(rng: &mut Rng, n: usize) -> Vec<Entry> {
    // incompressible-ish: random gaps, random lengths, offsets mostly explicit
    let mut v = Vec::with_capacity(n);
    let mut id = rng.below(1000);
    let mut off = 0u64;
    for _ in 0..n {
        id += 1 + rng.below(60);
        let len = 1 + rng.below(60_000) as u32;
        if rng.chance(1, 3) {
            off += rng.below(1000);
        }
        v.push(Entry { tile_id: id, run_length: 1 + (rng.below(8) == 0) as u32 * rng.below(9) as u32, length: len, offset: off });
        id += 10;
        off += u64::from(len);
    }
    v
}

fn single_root_len(es: &[Entry], comp: Compression) -> usize {
    let mut b = Vec::new();
    Directory::from(es.to_vec()).to_writer(&mut b, comp).expect("steer encode");
    b.len()
}

fn single_root_len_async(es: &[Entry], comp: Compression) -> usize {
    let mut cur = futures::io::Cursor::new(Vec::new());
    block_on(Directory::from(es.to_vec()).to_async_writer(&mut cur, comp)).expect("steer encode");
    cur.into_inner().len()
}

/// largest n such that the single-root encoding of the first n entries is <= limit (steering only)
fn steer_n(es: &[Entry], comp: Compression, limit: usize) -> usize {
    let (mut lo, mut hi) = (0usize, es.len());
    while lo < hi {
        let mid = (lo + hi + 1) / 2;
        if single_root_len(&es[..mid], comp) <= limit {
            lo = mid;
        } else {
            hi = mid - 1;
        }
    }
    lo
}

fn writedirs_event(es: &[Entry], c: u8, start_size: Option<usize>, p0: u64, api: &str) -> Value {
    let comp = comp_of(c);
    let strat = start_size.map(|s| WriteDirsOverflowStrategy::OnlyLeafPointers { start_size: Some(s) });
    // observation of the library's own single-root encoding through the same API
    let first_len = if api == "sync" { single_root_len(es, comp) } else { single_root_len_async(es, comp) };
    let mut buf: Vec<u8> = vec![0xAB; p0 as usize];
    let mut pos_after = 0u64;
    let res = guard(|| {
        if api == "sync" {
            let mut cur = Cursor::new(&mut buf);
            cur.set_position(p0);
            let r = write_directories(&mut cur, es, comp, strat);
            pos_after = cur.position();
            r
        } else {
            let mut cur = futures::io::Cursor::new(&mut buf);
            cur.set_position(p0);
            let r = block_on(write_directories_async(&mut cur, es, comp, strat));
            pos_after = cur.position();
            r
        }
    });
    let mut ev = json!({"ev": "WriteDirs", "api": api, "comp": c, "start_size": start_size.map_or(0, |s| s.min(1 << 30)),
                        "entries": crate::codec::entries_json(es), "res": res_tag(&res), "first_len": first_len,
                        "pos_start": p0, "pos_after": pos_after.min(1 << 30)});
    if let Ok(Ok(leaf_section)) = res {
        let root_bytes = buf.get(p0 as usize..pos_after as usize).unwrap_or(&[]).to_vec();
        ev["root_clen"] = json!(root_bytes.len());
        ev["leaf_total"] = json!(leaf_section.len());
        ev["prefix_intact"] = json!(buf[..p0 as usize].iter().all(|b| *b == 0xAB));
        match up_decompress(c, &root_bytes).ok().and_then(|raw| hint_decode_dir(&raw).map(|e| (raw, e))) {
            None => ev["res"] = json!("root_undecodable"),
            Some((raw, root_entries)) => {
                let mut leaves = Vec::new();
                for e in root_entries.iter().filter(|e| e.run == 0) {
                    let sl = leaf_section.get(e.off as usize..(e.off + e.len) as usize);
                    let Some(sl) = sl else {
                        leaves.push(json!({"off": limbs(e.off), "len": limbs(e.len), "raw": [], "entries": [], "exact": false}));
                        continue;
                    };
                    let dec = up_decompress(c, sl).ok();
                    // "exact byte length": one byte less must not decode to the same directory
                    let shorter = if sl.is_empty() { None } else { up_decompress(c, &sl[..sl.len() - 1]).ok() };
                    let exact = dec.is_some() && shorter != dec;
                    let raw_l = dec.unwrap_or_default();
                    let es_l = hint_decode_dir(&raw_l).unwrap_or_default();
                    leaves.push(json!({"off": limbs(e.off), "len": limbs(e.len), "raw": bytes_json(&raw_l),
                                       "entries": Value::Array(es_l.iter().map(hentry_json).collect()), "exact": exact}));
                }
                ev["root"] = json!({"raw": bytes_json(&raw), "entries": Value::Array(root_entries.iter().map(hentry_json).collect())});
                ev["leaves"] = Value::Array(leaves);
            }
        }
    }
    ev
}

pub fn drive_writedirs(seed: u64, tier: &str, out: &mut Out) {
    let mut rng = Rng::new(seed ^ 0x5744);
    let mut ctx = Ctx::new();
    let pool = irregular_entries(&mut rng, if tier == "thorough" { 40_000 } else { 13_000 });
    // small lists, every codec, every start size
    for n in [0usize, 1, 2, 17, 300] {
        for c in 1u8..=4 {
            for (k, ss) in [None, Some(1usize), Some(7), Some(4096), Some(100_000)].iter().enumerate() {
                let api = if (n + k + c as usize) % 2 == 0 { "sync" } else { "async" };
                out.emit(writedirs_event(&pool[..n], c, *ss, (k as u64) * 13, api));
            }
        }
    }
    // lists steered just below / inside / just above the window (16257, 16384]
    for c in 1u8..=4 {
        let comp = comp_of(c);
        let n_fit = steer_n(&pool, comp, 16257);
        let n_win = steer_n(&pool, comp, 16384);
        let mut ns = vec![n_fit.saturating_sub(1), n_fit, n_fit + 1, n_win, n_win + 1, (n_win + 700).min(pool.len())];
        if tier == "thorough" {
            ns.extend([(n_fit + n_win) / 2, pool.len()]);
        }
        ns.retain(|n| *n <= pool.len());
        ns.dedup();
        for (k, n) in ns.iter().enumerate() {
            let starts: Vec<Option<usize>> = if k % 2 == 0 { vec![None, Some(1), Some(4096)] } else { vec![Some(7), Some(*n + 5), None] };
            for (j, ss) in starts.iter().enumerate() {
                // start size 1 on thousands of entries produces a root that itself overflows several times: the doubling loop
                let api = if (k + j) % 2 == 0 { "sync" } else { "async" };
                let ev = writedirs_event(&pool[..*n], c, *ss, if j == 1 { 127 } else { 0 }, api);
                if ev["leaves"].as_array().map_or(false, |l| !l.is_empty()) {
                    ctx.bump("writedirs_spilled");
                } else {
                    ctx.bump("writedirs_single_root");
                }
                let fl = ev["first_len"].as_u64().unwrap_or(0);
                if fl > 16257 && fl <= 16384 {
                    ctx.bump("writedirs_first_attempt_inside_window");
                }
                out.emit(ev);
            }
        }
    }
    // exactly on the budget: with compression none a list of n consecutive single-tile entries with 1-byte fields encodes to
    // 2 + 4n bytes, plus one byte per entry whose length needs a 2-byte varint: 4063 entries with 3 such entries = 16257 bytes
    // (must stay a single root), with 4 = 16258 bytes (must spill)
    for k in [3usize, 4] {
        let es: Vec<Entry> = (0..4063u64)
            .scan(0u64, |off, i| {
                let len = if (i as usize) < k { 200u32 } else { 100 };
                let e = Entry { tile_id: 5 + i, run_length: 1, length: len, offset: *off };
                *off += u64::from(len);
                Some(e)
            })
            .collect();
        for (api, p0) in [("sync", 0u64), ("async", 0), ("sync", 777), ("async", 12_345)] {
            let ev = writedirs_event(&es, 1, None, p0, api);
            if ev["first_len"].as_u64() == Some(16257) {
                ctx.bump("writedirs_exactly_on_budget");
            }
            if ev["first_len"].as_u64() == Some(16258) {
                ctx.bump("writedirs_one_byte_over_budget");
            }
            out.emit(ev);
        }
    }
    // a single-root encoding just beyond 65536 bytes (a length that would fit again if it were truncated to 16 bits)
    for c in (if tier == "thorough" { vec![1u8, 2, 4] } else { vec![1u8] }) {
        let n = steer_n(&pool, comp_of(c), 65536 + 6000);
        if n < pool.len() && single_root_len(&pool[..n], comp_of(c)) > 65536 {
            out.emit(writedirs_event(&pool[..n], c, None, 0, if c == 1 { "sync" } else { "async" }));
            ctx.bump("writedirs_single_root_length_beyond_65536");
        }
    }
    // tiny start sizes on long lists: the first root of leaf pointers is itself over budget, so the leaf size doubles
    let long = pool.len().min(8000);
    for (c, ss, api) in [(1u8, 1usize, "sync"), (1, 1, "async"), (1, 3, "async"), (2, 1, "async"), (4, 2, "sync")] {
        let ev = writedirs_event(&pool[..long], c, Some(ss), 0, api);
        let n_leaves = ev["leaves"].as_array().map_or(0, |l| l.len());
        if n_leaves > 0 && n_leaves < (long + ss - 1) / ss {
            ctx.bump("writedirs_leaf_size_doubled");
        }
        out.emit(ev);
    }
    ctx.print_stats();
}

/// whole archives steered onto the root-budget window: Bulk / Save / Reopen / List / Count
pub fn drive_steer(seed: u64, tier: &str, out: &mut Out) {
    let mut rng = Rng::new(seed ^ 0x5354_4545);
    let mut em = Emitter::new();
    let pool = irregular_entries(&mut rng, if tier == "thorough" { 30_000 } else { 9000 });
    let mut spilled = 0u64;
    let mut window = 0u64;
    for c in 1u8..=4 {
        let comp = comp_of(c);
        // the archive writer lays contents out contiguously: steer with contiguous offsets of the same lengths
        let mut es = pool.clone();
        let mut off = 0u64;
        let mut id = 0u64;
        for e in es.iter_mut() {
            // wide random gaps keep the directory incompressible, so every codec reaches the budget
            id += 1 + (e.offset.wrapping_mul(0x9E37_79B9_7F4A_7C15) >> 44);
            e.tile_id = id;
            e.run_length = 1;
            e.length = 9 + e.length % 40;
            e.offset = off;
            off += u64::from(e.length);
        }
        let n_fit = steer_n(&es, comp, 16257);
        let n_win = steer_n(&es, comp, 16384);
        let mut ns = vec![n_fit, n_fit + 1, n_win + 1];
        if tier == "thorough" {
            ns.extend([n_fit.saturating_sub(1), n_win, (n_fit + n_win) / 2, n_win + 4097]);
        }
        ns.retain(|n| *n <= es.len());
        for (k, n) in ns.iter().enumerate() {
            let tiles: Vec<(u64, Vec<u8>)> = es[..*n]
                .iter()
                .map(|e| {
                    // distinct contents of exactly the steered lengths
                    let mut b = e.tile_id.to_le_bytes().to_vec();
                    b.resize(e.length as usize, 0x5A);
                    (e.tile_id, b)
                })
                .collect();
            let mut set = Settings::random(&mut rng, c);
            set.ic = c;
            let api = ((k + c as usize) % 2) as u8;
            let mut ops = vec![Op::New { tt: set.tt, tc: set.tc, api }, Op::Set(set), Op::Bulk(tiles.clone()), Op::Count, Op::Save,
                               Op::Reopen { api: 1 - api }, Op::Observe, Op::Count, Op::List];
            for _ in 0..60 {
                ops.push(Op::Get { id: rng.pick(&tiles).0 });
            }
            ops.push(Op::Get { id: tiles[tiles.len() - 1].0 });
            ops.push(Op::Get { id: tiles[0].0 });
            ops.push(Op::Save);
            ops.push(Op::Reset);
            let obs = exec(&ops, false);
            for o in &obs {
                if let (Op::Save, Some(b)) = (&o.op, &o.file) {
                    if b.len() >= 127 {
                        let root_len = u64::from_le_bytes(b[16..24].try_into().expect("8"));
                        let leaf_len = u64::from_le_bytes(b[48..56].try_into().expect("8"));
                        if leaf_len > 0 {
                            spilled += 1;
                        }
                        if root_len > 16257 - 200 {
                            window += 1;
                        }
                    }
                }
            }
            em.emit(&obs, out);
        }
    }
    // one archive whose single (gzip-compressible) directory holds more than 65536 entries: adjacent IDs,
    // distinct contents of equal length; judged through count, listing and lookups after the reopen
    {
        let n = 66_000u64;
        let tiles: Vec<(u64, Vec<u8>)> = (0..n).map(|i| (i + 5, (i as u32).to_le_bytes().to_vec())).collect();
        let mut set = Settings::default_for(1, 1);
        set.ic = 2;
        let mut ops = vec![Op::New { tt: 1, tc: 1, api: 0 }, Op::Set(set), Op::Bulk(tiles), Op::Save, Op::Reopen { api: 1 }, Op::Count, Op::List];
        for _ in 0..150 {
            ops.push(Op::Get { id: rng.below(n + 10) });
        }
        ops.push(Op::Get { id: n + 4 });
        ops.push(Op::Get { id: 65_536 + 5 });
        ops.push(Op::Reset);
        em.light = true;
        em.emit(&exec(&ops, false), out);
        println!("stat steer_archive_beyond_65536_entries=1");
        em.light = false;
    }
    for k in [3u64, 4] {
        let tiles: Vec<(u64, Vec<u8>)> = (0..4063u64)
            .map(|i| {
                let mut b = (i as u32).to_le_bytes().to_vec();
                b.resize(if i < k { 200 } else { 100 }, 0x33);
                (5 + i, b)
            })
            .collect();
        let mut set = Settings::random(&mut rng, 1);
        set.ic = 1;
        let api = (k % 2) as u8;
        let mut ops = vec![Op::New { tt: set.tt, tc: set.tc, api }, Op::Set(set), Op::Bulk(tiles.clone()), Op::Save, Op::Reopen { api: 1 - api }, Op::Count];
        for _ in 0..30 {
            ops.push(Op::Get { id: rng.pick(&tiles).0 });
        }
        ops.push(Op::Get { id: tiles[tiles.len() - 1].0 });
        ops.push(Op::Reset);
        let obs = exec(&ops, false);
        for o in &obs {
            if let (Op::Save, Some(b)) = (&o.op, &o.file) {
                if b.len() >= 127 {
                    let root_len = u64::from_le_bytes(b[16..24].try_into().expect("8"));
                    let leaf_len = u64::from_le_bytes(b[48..56].try_into().expect("8"));
                    if root_len == 16257 && leaf_len == 0 {
                        println!("stat steer_root_exactly_16257=1");
                    }
                    if leaf_len > 0 {
                        spilled += 1;
                    }
                }
            }
        }
        em.emit(&obs, out);
    }
    // an archive whose single-root encoding would be about 70 000 bytes (a length that fits the budget again once it is
    // narrowed to 16 bits): 17 500 consecutive single-tile entries of 4 bytes each, compression none, both writers
    for api in [0u8, 1] {
        let tiles: Vec<(u64, Vec<u8>)> = (0..17_500u64)
            .map(|i| {
                let mut b = i.to_le_bytes().to_vec();
                b.resize(9 + (i % 23) as usize, 0x44);
                (11 + i, b)
            })
            .collect();
        let mut set = Settings::random(&mut rng, 1);
        set.ic = 1;
        let mut ops = vec![Op::New { tt: set.tt, tc: set.tc, api }, Op::Set(set), Op::Bulk(tiles.clone()), Op::Save, Op::Reopen { api: 1 - api }, Op::Count];
        for _ in 0..20 {
            ops.push(Op::Get { id: rng.pick(&tiles).0 });
        }
        ops.push(Op::Reset);
        let obs = exec(&ops, false);
        for o in &obs {
            if let (Op::Save, Some(b)) = (&o.op, &o.file) {
                if b.len() >= 127 && u64::from_le_bytes(b[48..56].try_into().expect("8")) > 0 {
                    spilled += 1;
                }
            }
        }
        em.emit(&obs, out);
    }
    println!("stat steer_saves_with_leaf_directories={spilled}");
    println!("stat steer_saves_with_root_near_budget={window}");
}
