"""Shared machinery of /verif/bin/check: building the harness, running TLC, trace validation,
negative controls, known findings, evidence and exit codes.

Exit codes: 0 = property held on everything explored; 1 = VIOLATION (only ever from behaviour of
the real code); 2 = tool / specification / harness error (never a verdict).
"""
import json, os, re, subprocess, sys, time, shutil, random

ROOT = os.path.dirname(os.path.dirname(os.path.abspath(__file__)))
SPEC = os.path.join(ROOT, "spec")
HARNESS = os.path.join(ROOT, "harness")
PMV = os.path.join(HARNESS, "target", "debug", "pmv")
WORK = os.path.join(ROOT, "work")
EVID = os.path.join(ROOT, "evidence")
KNOWN = os.path.join(ROOT, "known_findings.json")


class ToolError(Exception):
    pass


class LibraryHang(Exception):
    """The driver process burnt STALL_CPU seconds of processor time without finishing another event: a call into the
    library does not return.  (Processor time of the driver itself, not wall-clock time: a loaded machine cannot trigger it.)"""
    def __init__(self, msg, info):
        super().__init__(msg)
        self.info = info


def log(*a):
    print(*a, flush=True)


def sh(cmd, timeout=None, env=None, cwd=None, stdout=None):
    e = dict(os.environ)
    if env:
        e.update(env)
    return subprocess.run(cmd, cwd=cwd, env=e, timeout=timeout, text=True,
                          stdout=subprocess.PIPE if stdout is None else stdout,
                          stderr=subprocess.STDOUT)


def build_harness():
    """Rebuild the harness against /repo's current working tree (hooks on: feature `verif`)."""
    t = time.time()
    env = {"CARGO_NET_OFFLINE": "true"}
    r = sh(["cargo", "build", "--offline", "--quiet"], cwd=HARNESS, env=env, timeout=1800)
    if r.returncode != 0:
        # a change to /repo that does not compile is not a property verdict
        log(r.stdout[-4000:])
        raise ToolError("harness build failed")
    return time.time() - t


def workdir(pid):
    d = os.path.join(WORK, pid)
    if os.path.isdir(d):
        shutil.rmtree(d, ignore_errors=True)
    os.makedirs(d, exist_ok=True)
    return d


MAX_CPU_GAP = [0.0]  # largest processor time any driver spent between two events in this run (reported in the evidence)
# Seconds of the driver's own processor time with neither a finished event nor a heartbeat (a guarded library call
# returning) => one library call is still running => the library hangs.  The slowest legitimate single call is brotli
# at quality 11 on the multi-megabyte inputs of C14: ~8 s (quick, 0.4 MB) and ~180 s (thorough, 9 MB).
STALL_CPU = 420
STALL_CPU_THOROUGH = 1800


def _cpu_seconds(pid):
    """processor time of the driver process plus its live direct children (save-child, worker)"""
    def one(path):
        with open(path) as f:
            fs = f.read().rsplit(")", 1)[1].split()
        return int(fs[1]), (int(fs[11]) + int(fs[12]) + int(fs[13]) + int(fs[14])) / os.sysconf("SC_CLK_TCK")
    try:
        total = one(f"/proc/{pid}/stat")[1]        # utime + stime + reaped children
    except (OSError, IndexError, ValueError):
        return None
    for d in os.listdir("/proc"):
        if d.isdigit() and int(d) != pid:
            try:
                ppid, t = one(f"/proc/{d}/stat")
                if ppid == pid:
                    total += t
            except (OSError, IndexError, ValueError):
                pass
    return total


class _R:
    def __init__(self, rc, out):
        self.returncode, self.stdout = rc, out


def pmv(args, timeout=1800, check=True, env=None, stats=None):
    args = [str(a) for a in args]
    outfile = args[args.index("--out") + 1] if "--out" in args else None
    e = dict(os.environ)
    if env:
        e.update(env)
    import threading
    proc = subprocess.Popen([PMV] + args, env=e, stdout=subprocess.PIPE, stderr=subprocess.STDOUT, text=True)
    chunks = []
    th = threading.Thread(target=lambda: chunks.extend(iter(proc.stdout.readline, "")), daemon=True)
    th.start()
    t0 = time.time()
    stall_cpu = STALL_CPU_THOROUGH if ("--tier" in args and args[args.index("--tier") + 1] == "thorough") else STALL_CPU
    mark, cpu_at_mark = (-1, -1), 0.0
    while proc.poll() is None:
        time.sleep(0.5)
        size = os.path.getsize(outfile) if outfile and os.path.exists(outfile) else 0
        cpu = _cpu_seconds(proc.pid)
        if cpu is not None:
            MAX_CPU_GAP[0] = max(MAX_CPU_GAP[0], cpu - cpu_at_mark if mark != (-1, -1) else cpu)
        if (size, len(chunks)) != mark:
            mark, cpu_at_mark = (size, len(chunks)), (cpu or 0.0)
        elif cpu is not None and cpu - cpu_at_mark > stall_cpu:
            proc.kill(); proc.wait()
            n_ev = 0
            last = ""
            if outfile and os.path.exists(outfile):
                with open(outfile, errors="replace") as f:
                    for line in f:
                        if line.endswith("\n"):
                            n_ev += 1; last = line
            raise LibraryHang(f"pmv {' '.join(args[:2])}: no further event after {n_ev} events in {stall_cpu} s of processor time",
                              {"driver_args": args, "events_completed": n_ev, "last_completed_event": last[:4000]})
        if time.time() - t0 > timeout:
            proc.kill(); proc.wait()
            raise ToolError("harness command timed out: pmv " + " ".join(args))
    th.join(timeout=10)
    r = _R(proc.returncode, "".join(chunks))
    if check and r.returncode != 0:
        log(r.stdout[-3000:])
        raise ToolError("harness command failed: pmv " + " ".join(str(a) for a in args))
    if stats is not None:
        for line in r.stdout.splitlines():
            m = re.match(r"^stat (\w+)=(\d+)$", line) or re.match(r"^(events)=(\d+)$", line)
            if m:
                stats[m.group(1)] = stats.get(m.group(1), 0) + int(m.group(2))
    return r


TLC_JAVA = "-Xss1g -Xmx{mx} -XX:ParallelGCThreads={gc}"

_STATS = re.compile(r"(\d+) states generated, (\d+) distinct states found")
_FAIL = re.compile(r'^<<"FAIL", (.*)>>$')


def _parse_tuple_items(s):
    """items of a printed TLA+ tuple of ints and strings (no nesting needed here)"""
    out = []
    for m in re.finditer(r'"((?:[^"\\]|\\.)*)"|(-?\d+)', s):
        out.append(m.group(1) if m.group(1) is not None else int(m.group(2)))
    return out


def run_tlc(module, cfg, wd, name, env=None, workers=1, timeout=900, mx="6g", extra=None, simulate=None):
    """Run TLC on spec/<module>.tla with spec/<cfg>.  Returns dict with output and parsed lines."""
    meta = os.path.join(wd, "tlc_" + name)
    shutil.rmtree(meta, ignore_errors=True)
    jtmp = os.path.join(wd, "jtmp_" + name)          # TLC leaves a tlc-* directory in java.io.tmpdir on every run
    os.makedirs(jtmp, exist_ok=True)
    e = {"JAVA_TOOL_OPTIONS": TLC_JAVA.format(mx=mx, gc=max(2, min(8, workers))) + " -Djava.io.tmpdir=" + jtmp}
    if env:
        e.update(env)
    cmd = ["timeout", str(timeout), "tlc", "-workers", str(workers), "-metadir", meta, "-cleanup",
           "-noGenerateSpecTE", "-config", cfg]
    if simulate:
        cmd += ["-simulate", simulate]
    if extra:
        cmd += extra
    cmd += [module + ".tla"]
    t = time.time()
    outp = os.path.join(wd, "tlc_" + name + ".out")
    with open(outp, "w") as f:
        r = sh(cmd, cwd=SPEC, env=e, stdout=f, timeout=timeout + 60)
    wall = time.time() - t
    shutil.rmtree(meta, ignore_errors=True)
    shutil.rmtree(jtmp, ignore_errors=True)
    res = {"rc": r.returncode, "wall": wall, "out_path": outp, "fails": [], "done": None,
           "generated": 0, "distinct": 0, "prints": []}
    text = open(outp).read()
    # TLC wraps long tuples over several lines: parse on the whole text
    for m in re.finditer(r'<<\s*"FAIL",\s*(.*?)>>', text, re.S):
        res["fails"].append(_parse_tuple_items(m.group(1)))
    m = re.search(r'<<\s*"DONE",\s*(\d+),\s*(\d+)\s*>>', text)
    if m:
        res["done"] = [int(m.group(1)), int(m.group(2))]
    for m in _STATS.finditer(text):
        res["generated"], res["distinct"] = int(m.group(1)), int(m.group(2))
    return res


def tlc_ok(res, what):
    """A TLC run that is not a clean completion is a tool error (never a verdict)."""
    if res["rc"] != 0:
        tail = open(res["out_path"]).read()[-3000:]
        log(tail)
        raise ToolError(f"TLC failed ({what}): rc={res['rc']}")


def _validate_one(module, trace, wd, name, timeout, mx):
    cfg = module + ".cfg"
    res = run_tlc(module, cfg, wd, name, env={"TRACE": trace}, workers=1, timeout=timeout, mx=mx)
    tlc_ok(res, f"trace validation {name}")
    if res["done"] is None:
        log(open(res["out_path"]).read()[-3000:])
        raise ToolError(f"trace validation {name}: no DONE line (trace not consumed)")
    n, nfail = res["done"][0], res["done"][1]
    if nfail != len(res["fails"]):
        raise ToolError(f"trace validation {name}: FAIL lines {len(res['fails'])} != counted {nfail}")
    return n, res["fails"], res


def validate_trace(module, trace, wd, name, timeout=1200, mx="6g", parallel=1, cuts=False):
    """Trace validation: returns (n_events, fails, res) where fails = [[l, ev, tag, ...], ...].
    parallel > 1 (only for families whose events are independent cases): the trace is cut into
    contiguous chunks validated by concurrent TLC processes; indices are mapped back."""
    lines = read_events(trace)
    MAXB = 60000     # TLC cannot handle behaviours of 65536 or more states: a chunk is one behaviour
    if len(lines) > MAXB:
        parallel = max(parallel, 2)
    if parallel <= 1 or len(lines) < 2 * parallel:
        return _validate_one(module, trace, wd, name, timeout, mx)
    total = sum(len(x) for x in lines)
    chunks, cur, size, start = [], [], 0, 0
    for i, ln in enumerate(lines):
        cur.append(ln); size += len(ln)
        can_cut = (not cuts) or '"cut":true' in ln
        if can_cut and ((size >= total / parallel and len(chunks) < parallel - 1) or len(cur) >= MAXB // 3):
            chunks.append((start, cur)); start = i + 1; cur = []; size = 0
    if cur:
        chunks.append((start, cur))
    import concurrent.futures
    def work(k):
        off, ls = chunks[k]
        p = os.path.join(wd, f"{name}.part{k}.ndjson")
        with open(p, "w") as f:
            f.writelines(ls)
        n, fails, res = _validate_one(module, p, wd, f"{name}_p{k}", timeout, "3g")
        os.remove(p)
        return off, n, fails, res
    n_all, fails_all, last = 0, [], None
    if any(len(c[1]) > MAXB for c in chunks):
        raise ToolError(f"trace validation {name}: a trace segment without cut point has more than {MAXB} events")
    with concurrent.futures.ThreadPoolExecutor(max_workers=parallel) as ex:
        for off, n, fails, res in ex.map(work, range(len(chunks))):
            n_all += n
            fails_all += [[f[0] + off] + f[1:] for f in fails]
            last = res
    if n_all != len(lines):
        raise ToolError(f"trace validation {name}: consumed {n_all} of {len(lines)} events")
    return n_all, sorted(fails_all), last


def read_events(trace):
    with open(trace) as f:
        return [line for line in f if line.strip()]


def lint_trace(trace):
    """Json module of TLC wraps ints >= 2^31: refuse such traces (tool error)."""
    big = re.compile(r"(?<![\w.\"])-?\d{10,}(?![\w.])")
    with open(trace) as f:
        for i, line in enumerate(f, 1):
            for m in big.finditer(line):
                v = int(m.group(0))
                if v > 2147483647 or v < -2147483648:
                    raise ToolError(f"{trace}:{i}: integer {v} outside TLC range")
            if "null" in line and re.search(r"[:\[,]\s*null", line):
                raise ToolError(f"{trace}:{i}: JSON null not supported by TLC")


def negative_control(module, events, wd, name):
    """events: list of JSON strings, each deliberately corrupted in one observed field.  Every one
    of them must be rejected by the trace spec; otherwise the spec has gone vacuous (tool error)."""
    p = os.path.join(wd, f"neg_{name}.ndjson")
    with open(p, "w") as f:
        for e in events:
            f.write(e if e.endswith("\n") else e + "\n")
    n, fails, _ = validate_trace(module, p, wd, "neg_" + name, timeout=300)
    bad = set(x[0] for x in fails)
    missing = [i for i in range(1, n + 1) if i not in bad]
    if missing or n != len(events):
        raise ToolError(f"negative control {name}: corrupted events {missing} were accepted")
    return n


# ---------------------------------------------------------------------------------------
# known findings

def load_known():
    if not os.path.exists(KNOWN):
        return {"known": [], "fixed": []}
    return json.load(open(KNOWN))


def match_known(pid, ev, tag, detail):
    """A finding is identified by property + event kind + tag (+ optional detail predicate)."""
    for k in load_known().get("known", []):
        if k["property"] != pid:
            continue
        m = k["match"]
        if m.get("ev") not in (None, ev):
            continue
        if m.get("tag") not in (None, tag):
            continue
        ok = True
        for key, val in m.get("detail", {}).items():
            if detail.get(key) != val:
                ok = False
        if ok:
            return k
    return None


# ---------------------------------------------------------------------------------------
# result of a check

class Check:
    def __init__(self, pid, tier, seed):
        self.pid, self.tier, self.seed = pid, tier, seed
        self.t0 = time.time()
        self.wd = workdir(pid)
        self.violations = []   # (replay_path, text)
        self.known_hits = {}   # what -> count
        self.cov = {"states": 0, "transitions": 0, "traces_validated_against_impl": 0, "samples": [],
                    "events_validated": 0, "mc": [], "negative_controls_rejected": 0}
        self.assumptions = []
        self.infos = []
        self.needs = []        # (driver statistic, least value): non-vacuity requirements, evaluated by finish()
        os.makedirs(os.path.join(WORK, "replays"), exist_ok=True)

    # -- model checking of the specification itself
    def mc(self, module, cfg=None, workers=8, timeout=900, mx="8g", must_distinct=1):
        cfg = cfg or module + ".cfg"
        res = run_tlc(module, cfg, self.wd, "mc_" + cfg.replace(".cfg", ""), workers=workers, timeout=timeout, mx=mx,
                      extra=["-coverage", "1"])
        if res["rc"] != 0:
            log(open(res["out_path"]).read()[-4000:])
            raise ToolError(f"model checking {cfg} failed: the specification violates its own property "
                            f"or TLC crashed (rc={res['rc']}); this is a spec error, not a verdict")
        if res["distinct"] < must_distinct:
            raise ToolError(f"model checking {cfg}: only {res['distinct']} distinct states (vacuous)")
        zero = self._zero_coverage_actions(res["out_path"])
        if zero:
            raise ToolError(f"model checking {cfg}: actions never taken: {zero}")
        self.cov["states"] += res["distinct"]
        self.cov["transitions"] += res["generated"]
        self.cov["mc"].append({"instance": cfg, "distinct_states": res["distinct"],
                               "states_generated": res["generated"], "wall_s": round(res["wall"], 1)})
        return res

    @staticmethod
    def _zero_coverage_actions(path):
        zero = []
        pat = re.compile(r"^<(\w+) line \d+, col \d+ to line \d+, col \d+ of module (\w+)>: (\d+):(\d+)")
        for line in open(path):
            m = pat.match(line)
            if m and m.group(1) not in ("Init",) and int(m.group(4)) == 0 and int(m.group(3)) == 0:
                zero.append(m.group(1))
        return zero

    # -- trace validation
    def validate(self, module, trace, name, classify=None, timeout=1200, parallel=1, cuts=False, scope=None):
        """Validate a trace; every rejected event becomes a violation or a known finding."""
        lint_trace(trace)
        n, fails, res = validate_trace(module, trace, self.wd, name, timeout=timeout, parallel=parallel, cuts=cuts)
        # separate executions of the implementation in this trace: Reset-delimited segments, independent cases, runs
        execs = 0
        with open(trace) as tf:
            for ln in tf:
                if '"ev":"Reset"' in ln:
                    execs += 1
                execs += ln.count('"sched":') + len(re.findall(r'\{"k":\d', ln))      # schedule runs, fault / crash points
        self.cov["traces_validated_against_impl"] += execs if execs > 0 else n
        self.cov["trace_files"] = self.cov.get("trace_files", 0) + 1
        self.cov["events_validated"] += n
        events = None
        for f in fails:
            l, ev, tag = f[0], f[1], f[2]
            if str(tag).startswith("STIMULUS") or str(tag).startswith("TRANSPORT"):
                raise ToolError(f"{name}: event {l} ({ev}) is not a valid stimulus / transport record: {tag}")
            if str(tag).startswith("INFO:"):
                self.info_count(tag)
                continue
            if scope is not None and not scope(tag):
                # a deviation that belongs to another property's clause: reported, not judged here
                self.info_count("out-of-scope deviation " + str(tag))
                continue
            if events is None:
                events = read_events(trace)
            self.report(ev, tag, {"trace": trace, "event_index": l, "event": json.loads(events[l - 1]),
                                  "module": module, "extra": f[3:]}, classify)
        return n, fails

    def report(self, ev, tag, replay, classify=None):
        detail = classify(replay) if classify else {}
        k = match_known(self.pid, ev, tag, detail)
        if k:
            self.known_hits[k["what"]] = self.known_hits.get(k["what"], 0) + 1
            return
        self._per = getattr(self, "_per", {})
        self._per[(ev, tag)] = self._per.get((ev, tag), 0) + 1
        if self._per[(ev, tag)] > 5:
            self.more = getattr(self, "more", 0) + 1
            return
        i = len(self.violations) + 1
        path = os.path.join(WORK, "replays", f"{self.pid}-{i}.json")
        replay = dict(replay)
        replay.update({"property": self.pid, "tag": tag, "ev": ev, "seed": self.seed, "tier": self.tier,
                       "detail": detail, "drive": getattr(self, "ctx_drive", None)})
        ej = json.dumps(replay)
        if len(ej) > 2_000_000:
            replay["event"] = "(too large; see trace + event_index)"
        with open(path, "w") as f:
            json.dump(replay, f)
        self.violations.append((path, f"{ev}: {tag}"))

    def info_count(self, text):
        self._ic = getattr(self, "_ic", {})
        self._ic[text] = self._ic.get(text, 0) + 1

    def sample(self, obj):
        if len(self.cov["samples"]) < 6:
            s = json.dumps(obj)
            self.cov["samples"].append(obj if len(s) < 1500 else s[:1500] + "...")

    def neg(self, module, events, name):
        self.cov["negative_controls_rejected"] += negative_control(module, events, self.wd, name)

    def unmet_needs(self):
        st = self.cov.get("driver_stats", {})
        return [(k, st.get(k, 0), least) for k, least in self.needs if st.get(k, 0) < least]

    def finish(self, level="model_checking", extra=None):
        unmet = self.unmet_needs()
        if unmet and not self.violations:
            k, v, least = unmet[0]
            raise ToolError(f"driver never exercised '{k}' (got {v}, need {least}): the check would be vacuous")
        for k, v, least in unmet:
            self.infos.append(f"driver did not exercise '{k}' (got {v}, need {least})")
        wall = time.time() - self.t0
        cov = dict(self.cov)
        if extra:
            cov.update(extra)
        cov["known_findings_hit"] = self.known_hits
        cov["driver_max_cpu_s_between_events"] = round(MAX_CPU_GAP[0], 1)
        cov["driver_hang_threshold_cpu_s"] = STALL_CPU
        cov["further_violations_of_reported_kinds"] = getattr(self, "more", 0)
        cov["info"] = getattr(self, "_ic", {})
        if not cov["samples"]:
            cov["samples"] = ["(no sample recorded)"]
        ev = {"property_id": self.pid, "tier": self.tier, "seed": self.seed, "level": level,
              "coverage": cov, "assumptions": self.assumptions, "wall_s": round(wall, 1),
              "violations": len(self.violations)}
        os.makedirs(EVID, exist_ok=True)
        with open(os.path.join(EVID, self.pid + ".json"), "w") as f:
            json.dump(ev, f, indent=1)
        for what, n in self.known_hits.items():
            log(f"KNOWN-FINDING: property={self.pid} {what} (x{n})")
        for i in self.infos:
            log("INFO " + i)
        for t, n in getattr(self, "_ic", {}).items():
            log(f"INFO {t} (x{n})")
        for path, text in self.violations[:40]:
            log(f"VIOLATION property={self.pid} replay={path}   # {text}")
        if len(self.violations) > 40:
            log(f"... and {len(self.violations) - 40} more violations (see evidence)")
        log(f"{self.pid} {self.tier}: mc_states={cov['states']} events_validated={cov['events_validated']} "
            f"violations={len(self.violations)} wall={wall:.1f}s")
        return 1 if self.violations else 0


def mutate_json_line(line, fn):
    o = json.loads(line)
    fn(o)
    return json.dumps(o)
