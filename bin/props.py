"""Per-property pipelines.  Each takes a vlib.Check and fills in coverage / violations."""
import json, os, random
import vlib
from vlib import log, pmv, ToolError, SPEC


def thorough(chk):
    return chk.tier == "thorough"


def gen_stimuli(chk, module, cfg, name, timeout=900):
    """Run a generator instance: TLC prints one <<"STIM", json>> line per case."""
    res = vlib.run_tlc(module, cfg, chk.wd, "gen_" + name, workers=1, timeout=timeout)
    vlib.tlc_ok(res, "generator " + cfg)
    out = os.path.join(chk.wd, f"stim_{name}.ndjson")
    n = 0
    with open(out, "w") as f, open(res["out_path"]) as src:
        for line in src:
            if line.startswith('<<"STIM", "'):
                body = line.rstrip("\n")[len('<<"STIM", "'):-len('">>')]
                body = body.replace('\\"', '"').replace("\\\\", "\\")
                json.loads(body)  # must be JSON
                f.write(body + "\n")
                n += 1
    if n == 0:
        raise ToolError(f"generator {cfg} produced no stimuli")
    chk.cov.setdefault("generated_stimuli", 0)
    chk.cov["generated_stimuli"] += n
    chk.ctx_gen = {"module": module, "cfg": cfg, "name": name}
    chk.cov["mc"].append({"instance": cfg, "distinct_states": res["distinct"],
                          "states_generated": res["generated"], "wall_s": round(res["wall"], 1), "role": "generator"})
    return out, n


def first_event(trace, pred):
    with open(trace) as f:
        for line in f:
            o = json.loads(line)
            if pred(o):
                return line
    raise ToolError("no event for negative control in " + trace)


# ------------------------------------------------------------------------------------------
def c05(chk):
    t = "thorough" if thorough(chk) else "quick"
    chk.mc("MC_Codec", "MC_Codec_thorough.cfg" if thorough(chk) else "MC_Codec.cfg", workers=8, timeout=3000)
    stim, n = gen_stimuli(chk, "MC_Codec", "Gen_Dir_thorough.cfg" if thorough(chk) else "Gen_Dir.cfg", "dir", timeout=3000)
    trace = os.path.join(chk.wd, "dir.ndjson")
    pmv(["drive", "dir", "--seed", chk.seed, "--tier", t, "--stim", stim, "--no-zero", "--out", trace])
    chk.validate("Trace_Codec", trace, "dir", timeout=3000, parallel=6)
    # negative controls: one byte of a written directory, one parsed field
    def corrupt_blob(o):
        o["blobs"][0][-1] = (o["blobs"][0][-1] + 1) % 128
    def corrupt_list(o):
        o["lists"][0][0]["len"][3] = (o["lists"][0][0]["len"][3] + 1) % 65536 or 1
    def corrupt_res(o):
        o["dec"][0]["res"] = "err"
    ev = first_event(trace, lambda o: o["ev"] == "Dir" and len(o["entries"]) >= 2 and o["lists"])
    chk.neg("Trace_Codec", [vlib.mutate_json_line(ev, corrupt_blob), vlib.mutate_json_line(ev, corrupt_list),
                            vlib.mutate_json_line(ev, corrupt_res)], "dir")
    chk.sample(json.loads(first_event(trace, lambda o: o["ev"] == "Dir" and 1 <= len(o["entries"]) <= 2)))
    chk.assumptions += ["upstream flate2/brotli/zstd decoders are used to obtain the uncompressed serialisation",
                        "TLC 64-bit arithmetic is done on 16-bit limbs (U64.tla)"]
    chk.cov["rule"] = ("cases = TLC-enumerated valid directories of <=3 entries over boundary sets (Gen_Dir) + seeded random "
                       "valid directories up to 5000 (quick) / 100000 (thorough) entries x 4 codecs x sync/async; "
                       "each event is judged by Directory!EncDir / ValidDir evaluated by TLC")


def c09(chk):
    t = "thorough" if thorough(chk) else "quick"
    chk.mc("MC_Codec", "MC_Codec_thorough.cfg" if thorough(chk) else "MC_Codec.cfg", workers=8, timeout=3000)
    trace = os.path.join(chk.wd, "hdr.ndjson")
    pmv(["drive", "hdr", "--seed", chk.seed, "--tier", t, "--out", trace])
    chk.validate("Trace_Codec", trace, "hdr", timeout=3000, parallel=4, scope=lambda t: not str(t).startswith("X:"))
    ev = first_event(trace, lambda o: o["ev"] == "Hdr" and len(o["bytes"]) >= 127 and all(x["res"] == "ok" for x in o["obs"]))
    def c_field(o):
        o["obs"][0]["h"]["min_lat"] += 1
    def c_pos(o):
        o["obs"][1]["pos"] = 128
    def c_re(o):
        o["obs"][2]["re_sync"][50] ^= 1
    ev2 = first_event(trace, lambda o: o["ev"] == "HdrEnc" and "bytes" in o["obs"][0])
    def c_bytes(o):
        o["obs"][0]["bytes"][100] ^= 1
    ev3 = first_event(trace, lambda o: o["ev"] == "Coords")
    def c_coord(o):
        o["cases"][0]["stored"] += 2
    ev4 = first_event(trace, lambda o: o["ev"] == "Hdr" and len(o["bytes"]) == 126)
    def c_short(o):
        o["obs"][0]["res"] = "ok"
    chk.neg("Trace_Codec", [vlib.mutate_json_line(ev, c_field), vlib.mutate_json_line(ev, c_pos),
                            vlib.mutate_json_line(ev, c_re), vlib.mutate_json_line(ev2, c_bytes),
                            vlib.mutate_json_line(ev3, c_coord), vlib.mutate_json_line(ev4, c_short)], "hdr")
    chk.sample(json.loads(ev2))
    chk.assumptions += ["degree values enter the spec as exact (floor, cmp) pairs computed by rational arithmetic in the harness; "
                        "ties within a relative 2^-20 band accept either neighbour"]
    chk.cov["rule"] = ("every truncation 0..126, every code 0..255 at the enum bytes, magic/version corruptions, random and boundary "
                       "headers, a strided sweep of stored coordinate values through all six fields, sampled degree values incl. "
                       "half-step ties; judged by Header!DecHeader / EncHeader / NearestOK in TLC")


def c07(chk):
    t = "thorough" if thorough(chk) else "quick"
    chk.mc("MC_Hilbert", "MC_Hilbert_thorough.cfg" if thorough(chk) else "MC_Hilbert.cfg", workers=12, timeout=3000)
    trace = os.path.join(chk.wd, "hilbert.ndjson")
    zmax = 10 if thorough(chk) else 8
    pmv(["drive", "hilbert", "--seed", chk.seed, "--tier", t, "--zmax", zmax, "--out", trace])
    chk.validate("Trace_Hilbert", trace, "hilbert", timeout=3000, parallel=8)
    ev = first_event(trace, lambda o: o["ev"] == "Row" and o["z"] == 3)
    def c_id(o):
        o["ids"][2][3] ^= 1
    ev2 = first_event(trace, lambda o: o["ev"] == "Inv")
    def c_inv(o):
        o["cases"][7]["x"][3] ^= 1
    ev3 = first_event(trace, lambda o: o["ev"] == "Lookup")
    def c_look(o):
        for cse in o["cases"]:
            if cse["res"] == "some":
                cse["res"] = "none"; break
    chk.neg("Trace_Hilbert", [vlib.mutate_json_line(ev, c_id), vlib.mutate_json_line(ev2, c_inv),
                              vlib.mutate_json_line(ev3, c_look)], "hilbert")
    chk.sample(json.loads(ev))
    chk.cov["rule"] = (f"tile_id for every (z,x,y) with z<={zmax}, zxy for every ID of the low zooms, boundary/random points at every zoom "
                       "0..31, IDs at every zoom-block edge and beyond zoom 31, coordinate lookups inside and outside the grid against "
                       "archives containing the aliased tile; every value recomputed by Hilbert.tla in TLC")
    chk.cov["exhaustive"] = True


# ------------------------------------------------------------------------------------------
def scope_of(*prefixes):
    return lambda tag: any(str(tag).startswith(p + ":") for p in prefixes)


def mc_store(chk):
    chk.mc("MC_Store", "MC_Store_thorough.cfg" if thorough(chk) else "MC_Store.cfg", workers=8, timeout=3000)
    # end-to-end composition: builder ; interruptible save ; open ; builder ...
    chk.mc("PMTiles", "PMTiles_thorough.cfg" if thorough(chk) else "PMTiles.cfg", workers=8, timeout=3000)
    # control: with a colliding content hash the builder no longer refines the map (the injectivity assumption is necessary)
    res = vlib.run_tlc("MC_Store", "MC_Store_collision.cfg", chk.wd, "mc_store_collision", workers=4, timeout=600)
    if "Invariant Refines is violated" not in open(res["out_path"]).read():
        raise ToolError("MC_Store control: a colliding hash does not violate Refines (model vacuous)")
    chk.cov["negative_controls_rejected"] += 1


def drive(chk, family, extra=None, name=None):
    t = "thorough" if thorough(chk) else "quick"
    trace = os.path.join(chk.wd, (name or family) + ".ndjson")
    stats = chk.cov.setdefault("driver_stats", {})
    pmv(["drive", family, "--seed", chk.seed, "--tier", t, "--out", trace] + (extra or []), stats=stats)
    chk.ctx_drive = {"family": family, "extra": [str(x) for x in (extra or [])], "name": name or family,
                     "gen": getattr(chk, "ctx_gen", None) if extra and "--stim" in [str(x) for x in extra] else None}
    return trace


def need_stat(chk, key, least=1):
    """non-vacuity: the driver must have exercised the situation the property is about.  The requirement is
    evaluated when the check finishes: a change to the library that makes the situation impossible (never spills,
    never retries, ...) is first judged by the specification on the events that were recorded -- only a run
    without any violation can be dismissed as vacuous."""
    chk.needs.append((key, least))


def nth_event(trace, pred, n=1):
    k = 0
    with open(trace) as f:
        for line in f:
            o = json.loads(line)
            if pred(o):
                k += 1
                if k == n:
                    return line
    raise ToolError("no event for negative control in " + trace)


def segment_with(trace, pred, max_events=4000):
    """the trace segment (from the preceding New to the event) containing the first event matching pred"""
    seg = []
    with open(trace) as f:
        for line in f:
            o = json.loads(line)
            if o["ev"] in ("New",):
                seg = []
            seg.append(line)
            if pred(o):
                return seg[-max_events:] if len(seg) <= max_events else seg
    raise ToolError("no segment for negative control in " + trace)


def neg_segment(chk, seg, mutate, name, expect_prefix):
    """corrupt the last event of a segment; the trace spec must report a tag with the given prefix on it"""
    lines = list(seg)
    lines[-1] = vlib.mutate_json_line(lines[-1], mutate) + "\n"
    p = os.path.join(chk.wd, f"neg_{name}.ndjson")
    with open(p, "w") as f:
        f.writelines(lines)
    n, fails, _ = vlib.validate_trace("Trace_Archive", p, chk.wd, "neg_" + name, timeout=600)
    hit = [x for x in fails if x[0] == len(lines) and str(x[2]).startswith(expect_prefix)]
    if not hit:
        raise ToolError(f"negative control {name}: corrupted event was accepted (fails={fails[:5]})")
    chk.cov["negative_controls_rejected"] += 1


def c04(chk):
    mc_store(chk)
    trace = drive(chk, "history")
    chk.validate("Trace_Archive", trace, "history", scope=scope_of("C04"), parallel=6, cuts=True, timeout=3000)
    # save + reopen of archives large enough for leaf directories (steered onto the root budget)
    trace_s = drive(chk, "steer")
    need_stat(chk, "steer_saves_with_leaf_directories", 4)
    chk.validate("Trace_Archive", trace_s, "steer", scope=scope_of("C04"), parallel=8, cuts=True, timeout=3000)
    # bulk-loaded archives: megabyte tiles, a six-digit run of one content, thousands of tiles -- saved, reopened, looked up
    trace_b = drive(chk, "bulk")
    chk.validate("Trace_Archive", trace_b, "bulk", scope=scope_of("C04"), parallel=6, cuts=True, timeout=3000)
    if thorough(chk):
        # a six-digit run of one content (TLC needs about a quarter of an hour for it)
        trace_l = drive(chk, "longrun")
        chk.validate("Trace_Archive", trace_l, "longrun", scope=scope_of("C04"), cuts=True, timeout=5000)
    seg = segment_with(trace, lambda o: o["ev"] == "Get" and o["res"] == "some")
    neg_segment(chk, seg, lambda o: o.update(tok=o["tok"] + 1), "get_tok", "C04")
    neg_segment(chk, seg, lambda o: o.update(res="none"), "get_none", "C04")
    seg = segment_with(trace, lambda o: o["ev"] == "List" and len(o["ids"]) >= 2)
    neg_segment(chk, seg, lambda o: o["ids"].pop(), "list_drop", "C04")
    seg = segment_with(trace, lambda o: o["ev"] == "Count" and o["n"] >= 1)
    neg_segment(chk, seg, lambda o: o.update(n=o["n"] - 1), "count", "C04")
    chk.sample([json.loads(x) for x in seg[:6]])
    chk.assumptions += ["the 64-bit content hash is injective on the contents used (modelled as identity)"]
    chk.cov["rule"] = ("MC: all histories over 3 (4) adjacent IDs x 3 colliding contents + empty, closed state space; "
                       "impl: seeded random histories (adds, replaces, removes, empty adds, lookups, listings, counts, settings, "
                       "save+reopen sync/async) over 8-20 IDs and 5-12 colliding contents; every event matched with the TileStore action")


def c10(chk):
    mc_store(chk)
    trace = drive(chk, "history")
    chk.validate("Trace_Archive", trace, "history", scope=scope_of("C10"), parallel=6, cuts=True, timeout=3000)
    seg = segment_with(trace, lambda o: o["ev"] == "Add" and "counts" in o and o["counts"][1] >= 2)
    def c_counts(o):
        o["counts"][1] += 1
    neg_segment(chk, seg, c_counts, "retention", "C10")
    trace2 = drive(chk, "bulk")
    chk.validate("Trace_Archive", trace2, "bulk", scope=scope_of("C10"), parallel=6, cuts=True, timeout=3000)
    def two_offsets(o):
        ts = o["file"]["tiles"]
        # give a second entry the content token of the first although it lives at another offset
        for t in ts[1:]:
            if t["off"] != ts[0]["off"] and t["tok"] != ts[0]["tok"]:
                t["tok"] = ts[0]["tok"]
                return
        raise ToolError("negative control: no suitable entry")
    seg = segment_with(trace2, lambda o: o["ev"] == "Save" and o["res"] == "ok" and len({json.dumps(t["off"]) for t in o["file"]["tiles"]}) >= 2)
    neg_segment(chk, seg, two_offsets, "dedup", "C10")
    chk.sample(json.loads(seg[-1])["file"]["tiles"][:5])
    chk.assumptions += ["the 64-bit content hash is injective on the contents used",
                        "tile content tokens are assigned by the harness by full byte equality of the slice at data offset + entry offset"]
    chk.cov["rule"] = ("retention: hook counts after every add/remove of the random histories compared with TileStore!Retention; "
                       "archive level: Archive!DedupExact, DataExact, RunsMaximal evaluated on every saved file (runs, A/B/A/B, "
                       "near-duplicates, duplicates between in-memory and reader-backed tiles)")


def c16(chk):
    mc_store(chk)
    trace = drive(chk, "canon")
    chk.validate("Trace_Archive", trace, "canon", scope=scope_of("C16"), parallel=6, cuts=True, timeout=3000)
    # second save of a target gets a different file token
    seen = {}
    def second_save(o):
        return o["ev"] == "Save" and o["res"] == "ok"
    lines = vlib.read_events(trace)
    seg, count = [], 0
    for ln in lines:
        seg.append(ln)
        o = json.loads(ln)
        if second_save(o) and any(json.loads(x)["ev"] == "Reset" for x in seg):
            break
    neg_segment(chk, seg, lambda o: o.update(ftok=o["ftok"] + 100000), "ftok", "C16")
    trace2 = drive(chk, "bulk")
    chk.validate("Trace_Archive", trace2, "bulk", scope=scope_of("C16"), parallel=6, cuts=True, timeout=3000)
    chk.sample({"first_events": [json.loads(x)["ev"] for x in lines[:40]]})
    chk.cov["rule"] = ("for each logical target (0..1200/6000 tiles, 4 codecs) 4/6 histories (permuted order, detours through wrong "
                       "content / extra tiles / removes, save+reopen in the middle), alternately in-process and in a fresh OS process; "
                       "TLC computes each history's map itself and requires equal file tokens for equal (map, settings, api); "
                       "plus to_writer(from_bytes(b)) = b on the bulk archives")


def c01(chk):
    mc_store(chk)
    trace = drive(chk, "bulk")
    chk.validate("Trace_Archive", trace, "bulk", scope=scope_of("C01", "C04"), parallel=6, cuts=True, timeout=3000)
    trace_s = drive(chk, "steer")
    need_stat(chk, "steer_saves_with_leaf_directories", 4)
    chk.validate("Trace_Archive", trace_s, "steer", scope=scope_of("C01", "C04"), parallel=8, cuts=True, timeout=3000)
    seg = segment_with(trace, lambda o: o["ev"] == "Observe")
    def c_coord(o):
        o["obs"]["coords"][0] += 1
    neg_segment(chk, seg, c_coord, "coord", "C01")
    def c_meta(o):
        o["obs"]["meta"] += 1
    neg_segment(chk, seg, c_meta, "meta", "C01")
    seg = segment_with(trace, lambda o: o["ev"] == "Get" and o["res"] == "some")
    neg_segment(chk, seg, lambda o: o.update(tok=o["tok"] + 1), "get", "C04")
    seg = segment_with(trace, lambda o: o["ev"] == "Save" and o["res"] == "ok" and len(o["file"]["tiles"]) >= 2)
    def drop_tile(o):
        o["file"]["tiles"][0]["tok"] += 1
    neg_segment(chk, seg, drop_tile, "addressed", "C01")
    chk.sample({k: v for k, v in json.loads(seg[1]).items()})
    chk.cov["rule"] = ("archives of 0..5000 (quick) / 50000 (thorough) tiles, IDs clustered / in runs / scattered up to the last valid ID, "
                       "contents 1 B..100 KiB with duplicates and near-duplicates, random JSON-object metadata, all compressions / tile "
                       "types / zooms / coordinates; written (sync/async), reopened (sync/async): listing, count, every (sampled) lookup, "
                       "neighbour and random absent IDs, settings and metadata compared with the map TLC built from the logged adds")


def c02(chk):
    mc_store(chk)
    trace = drive(chk, "bulk")
    c02_scope = lambda t: str(t).startswith("C02:") or str(t).startswith("C01:addressed_tiles_differ")   # incl. the lookup clause
    chk.validate("Trace_Archive", trace, "bulk", scope=c02_scope, parallel=6, cuts=True, timeout=3000)
    # archives reached through edit histories (re-adds, replaces, removes, save + reopen in between)
    trace_h = drive(chk, "history")
    chk.validate("Trace_Archive", trace_h, "history", scope=c02_scope, parallel=6, cuts=True, timeout=3000)
    trace_s = drive(chk, "steer")
    need_stat(chk, "steer_saves_with_leaf_directories", 4)
    need_stat(chk, "steer_saves_with_root_near_budget", 4)
    chk.validate("Trace_Archive", trace_s, "steer", scope=c02_scope, parallel=8, cuts=True, timeout=3000)
    seg = segment_with(trace, lambda o: o["ev"] == "Save" and o["res"] == "ok" and len(o["file"]["tiles"]) >= 2)
    def c_counter(o):
        o["file"]["hdr"][72] ^= 1
    neg_segment(chk, seg, c_counter, "counter", "C02")
    def c_root(o):
        o["file"]["root"]["raw"][-1] = (o["file"]["root"]["raw"][-1] + 1) % 128
    neg_segment(chk, seg, c_root, "rootbyte", "C02")
    def c_magic(o):
        o["file"]["hdr"][0] = 0
    neg_segment(chk, seg, c_magic, "magic", "C02")
    def c_meta(o):
        o["file"]["meta"]["kind"] = "array"
    neg_segment(chk, seg, c_meta, "metakind", "C02")
    def c_flen(o):
        o["file"]["flen"] = [0, 0, 0, 128]        # shorter than header + root: sections cannot be inside the file
    neg_segment(chk, seg, c_flen, "flen", "C02")
    f = json.loads(seg[-1])["file"]
    chk.sample({"hdr": f["hdr"], "root_raw_len": len(f["root"]["raw"]), "leaves": len(f["leaves"]), "tiles": f["tiles"][:3], "meta": f["meta"]})
    chk.assumptions += ["decompression of directory and metadata sections is done by the upstream codec crates (opaque to TLA+)",
                        "the harness' dissection (hint decoder, slicing) is verified by TLC against the raw directory bytes; "
                        "only the relation 'raw = decompress(file[range])' is trusted"]
    chk.cov["rule"] = ("every file written in the bulk driver (incl. leaf-spill archives, 4 codecs, sync/async writer) is parsed by the "
                       "TLA+ reader Archive!WellFormed: header, sections, 16 KiB budget, directories (ParsesTo on raw bytes), ascending "
                       "non-overlapping entries, tile ranges, three counters, clustered flag, metadata kind")


def c03(chk):
    chk.mc("MC_Tree", "MC_Tree_thorough.cfg" if thorough(chk) else "MC_Tree.cfg", workers=12, timeout=3000)
    stim, n = gen_stimuli(chk, "MC_Foreign", "Gen_Foreign.cfg", "foreign", timeout=600)
    trace = drive(chk, "files", ["--mode", "c03", "--stim", stim], name="c03")
    need_stat(chk, "files_with_leaf_directories", 10)
    chk.validate("Trace_Archive", trace, "c03", scope=scope_of("C03"), parallel=8, cuts=True, timeout=3000)
    seg = segment_with_file(trace, lambda o: o["ev"] == "Opened" and o["res"] == "ok" and len(o["tiles"]) >= 2)
    def c_tok(o):
        o["tiles"][0]["tok"] += 1
    neg_segment(chk, seg, c_tok, "opened_tok", "C03")
    def c_drop(o):
        o["tiles"].pop()
    neg_segment(chk, seg, c_drop, "opened_drop", "C03")
    def c_set(o):
        o["obs"]["minz"] = (o["obs"]["minz"] + 1) % 256
    neg_segment(chk, seg, c_set, "opened_setting", "C03")
    seg = segment_with_file(trace, lambda o: o["ev"] == "ReadDirs" and o["res"] == "ok" and len(o["map"]) >= 1)
    def c_map(o):
        o["map"][0]["off"][3] = (o["map"][0]["off"][3] + 1) % 65536
    neg_segment(chk, seg, c_map, "readdirs", "C03")
    seg = segment_with_file(trace, lambda o: o["ev"] == "Find" and any(c["res"] > 0 for c in o["cases"]))
    def c_find(o):
        for c in o["cases"]:
            if c["res"] > 0:
                c["res"] = 0; return
    neg_segment(chk, seg, c_find, "find", "C03")
    chk.sample({"stimulus": json.loads(open(stim).readline())})
    chk.assumptions += ["the assembler of foreign files is part of the harness; every assembled file is first validated by Archive!WellFormed "
                        "and compared with the generated layout before the library's answers are judged",
                        "tile bytes are compared as tokens interned by full byte equality"]
    chk.cov["rule"] = ("TLC enumerates 6912 layouts (24 section orders x 3 gap patterns x 4 tree shapes x 6 entry patterns x 2 metadata forms x 2 leaf "
                       "sizes); a slice of them (all in thorough) x 4 codecs is assembled, plus random layouts with thousands of entries, nested "
                       "leaves, runs, shared / unordered offsets, plus the upstream Go fixtures; opened through from_bytes / from_reader / "
                       "from_async_reader, read_directories (sync/async), find_entry_for_tile_id around every run")


def segment_with_file(trace, pred):
    """the File event preceding the first event matching pred, plus that event"""
    f = None
    with open(trace) as fh:
        for line in fh:
            o = json.loads(line)
            if o["ev"] == "File":
                f = line
            elif pred(o) and f is not None:
                return [f, line]
    raise ToolError("no (File, event) pair for negative control in " + trace)


def c11(chk):
    chk.mc("MC_Tree", "MC_Tree_thorough.cfg" if thorough(chk) else "MC_Tree.cfg", workers=12, timeout=3000)
    stim, n = gen_stimuli(chk, "MC_Foreign", "Gen_Foreign.cfg", "foreign", timeout=600)
    trace = drive(chk, "files", ["--mode", "c11", "--stim", stim], name="c11")
    need_stat(chk, "files_with_leaf_directories", 10)
    chk.validate("Trace_Archive", trace, "c11", scope=scope_of("C11"), parallel=8, cuts=True, timeout=3000)
    seg = segment_with_file(trace, lambda o: o["ev"] == "Partial" and o["res"] == "ok" and len(o["tiles"]) >= 1)
    def c_drop(o):
        o["tiles"].pop()
    neg_segment(chk, seg, c_drop, "partial_drop", "C11")
    def c_err(o):
        o["res"] = "err"
    neg_segment(chk, seg, c_err, "partial_err", "C11")
    def c_hi(o):
        o["hi"] = {"k": "unb", "v": [0, 0, 0, 0]}; o["lo"] = {"k": "exc", "v": [65535, 65535, 65535, 65535]}
    neg_segment(chk, seg, c_hi, "partial_range", "C11")
    chk.sample(json.loads(seg[1]) if len(seg[1]) < 1500 else {"ev": "Partial", "note": "large"})
    chk.cov["rule"] = ("foreign layouts (as C03), random nested layouts, the Go fixtures and library-written archives with real leaf spill x ranges: "
                       "every bound-kind pair at 0 / u64::MAX, endpoints steered onto run boundaries +-1 and leaf first IDs +-1, inverted and random "
                       "ranges; from_bytes_partially / from_reader_partially / from_async_reader_partially and read_directories(_async) with the "
                       "range; TLC requires the full opening restricted to the range (DirTree!InRange)")


def c19(chk):
    mc_store(chk)
    chk.mc("MC_Codec", "MC_Codec.cfg", workers=8, timeout=3000)
    # (1) empty adds inside long histories: refused, and nothing changes
    trace = drive(chk, "history")
    chk.validate("Trace_Archive", trace, "history", scope=scope_of("C19"), parallel=6, cuts=True, timeout=3000)
    # an accepted empty add, or an empty add that changes the retained state, must be rejected by the spec
    seg = segment_with(trace, lambda o: o["ev"] == "Add" and o["len"] == 0)
    neg_segment(chk, seg, lambda o: o.update(res="ok"), "empty_ok", "C19")
    # (2) zero-length directory entries: parser and serialiser
    tz = os.path.join(chk.wd, "dirzero.ndjson")
    pmv(["drive", "dir", "--seed", chk.seed, "--tier", chk.tier, "--only-zero", "--out", tz])
    chk.validate("Trace_Codec", tz, "dirzero", parallel=1, timeout=1200)
    ev = first_event(tz, lambda o: o["ev"] == "DirZeroRaw")
    def c_acc(o):
        o["dec"][0]["res"] = "ok"
    ev2 = first_event(tz, lambda o: o["ev"] == "Dir" and o["kind"] == "zero")
    def c_acc2(o):
        o["enc"][0]["res"] = "ok"
    chk.neg("Trace_Codec", [vlib.mutate_json_line(ev, c_acc), vlib.mutate_json_line(ev2, c_acc2)], "dirzero")
    # (3) non-object metadata / unknown internal compression on open and on write
    tr = drive(chk, "reject")
    chk.validate("Trace_Archive", tr, "reject", scope=scope_of("C19"), timeout=1200)
    ev = first_event(tr, lambda o: o["ev"] == "OpenReject" and o["meta_kind"] == "array")
    def c_open(o):
        o["obs"][0]["res"] = "ok"
    p = os.path.join(chk.wd, "neg_reject.ndjson")
    with open(p, "w") as f:
        f.write(vlib.mutate_json_line(ev, c_open) + "\n")
    n, fails, _ = vlib.validate_trace("Trace_Archive", p, chk.wd, "neg_reject", timeout=300)
    if not fails:
        raise ToolError("negative control reject: accepted")
    chk.cov["negative_controls_rejected"] += 1
    chk.sample(json.loads(ev))
    chk.cov["rule"] = ("empty adds at random points of long histories (refused; counts and all later observations unchanged), zero-length "
                       "entries at first / random / last index of directories of 1..200 entries x 4 codecs x sync/async for parser and "
                       "serialiser, every non-object JSON kind as metadata x 4 codecs x {no tiles, tiles} x 4 open APIs, internal compression "
                       "byte 0 on open, Unknown internal compression on write (sync/async)")


def c06(chk):
    chk.mc("MC_Spill", "MC_Spill_thorough.cfg" if thorough(chk) else "MC_Spill.cfg", workers=8, timeout=3000)
    trace = drive(chk, "writedirs")
    need_stat(chk, "writedirs_spilled", 8)
    need_stat(chk, "writedirs_single_root", 8)
    need_stat(chk, "writedirs_first_attempt_inside_window", 2)
    if chk.cov.get("driver_stats", {}).get("writedirs_leaf_size_doubled", 0) < 2:
        # how often the leaf size is doubled is the implementation's business: reported, not required
        chk.infos.append("the tiny-start-size cases did not make the library double its leaf size (policy differs from the pinned tree)")
    need_stat(chk, "writedirs_single_root_length_beyond_65536", 1)
    need_stat(chk, "writedirs_exactly_on_budget", 4)
    need_stat(chk, "writedirs_one_byte_over_budget", 4)
    chk.validate("Trace_Archive", trace, "writedirs", scope=scope_of("C06"), parallel=8, timeout=3000)
    def is_spill(o):
        return o["ev"] == "WriteDirs" and o["res"] == "ok" and len(o.get("leaves", [])) >= 2
    ev = first_event(trace, is_spill)
    def c_ptr(o):
        o["root"]["entries"][1]["off"][3] = (o["root"]["entries"][1]["off"][3] + 1) % 65536
    def c_clen(o):
        o["root_clen"] = 16258
    def c_pos(o):
        o["pos_after"] += 1
    def c_leaf(o):
        o["leaves"][0]["entries"][0]["len"][3] = (o["leaves"][0]["entries"][0]["len"][3] % 65535) + 1
    evs = [vlib.mutate_json_line(ev, f) for f in (c_ptr, c_clen, c_pos, c_leaf)]
    ev2 = first_event(trace, lambda o: o["ev"] == "WriteDirs" and o["res"] == "ok" and len(o.get("leaves", [])) == 0 and len(o["entries"]) > 0)
    def c_leaftotal(o):
        o["leaf_total"] = 5
    evs.append(vlib.mutate_json_line(ev2, c_leaftotal))
    chk.neg("Trace_Archive", evs, "writedirs")
    # whole-archive writes around the budget window
    trace_s = drive(chk, "steer")
    need_stat(chk, "steer_saves_with_leaf_directories", 4)
    chk.validate("Trace_Archive", trace_s, "steer", scope=scope_of("C06", "C02", "C01"), parallel=8, cuts=True, timeout=3000)
    o = json.loads(ev)
    chk.sample({"comp": o["comp"], "start_size": o["start_size"], "n_entries": len(o["entries"]), "first_len": o["first_len"],
                "root_clen": o["root_clen"], "leaf_total": o["leaf_total"], "n_leaves": len(o["leaves"])})
    chk.assumptions += ["'fits' is measured by the length of the single-root encoding the library itself produces for the list through the same "
                        "API (for compression none it must equal Len(EncDir) computed by TLC)",
                        "'exact byte length' of a compressed leaf: the upstream decoder accepts the slice and does not accept it one byte shorter"]
    chk.cov["rule"] = ("util::write_directories(_async) on lists of 0..300 entries x 4 codecs x start sizes {default, 1, 7, 4096, > n} and on lists "
                       "steered so that the single-root encoding lands just below / inside / above (16257, 16384], from stream positions 0 and "
                       "127; plus whole archives steered onto the same window; judged by Trace_Archive!WriteDirsTags / Archive!WellFormed")


def neg_events(chk, module, events, name, expect_prefix):
    """each corrupted event (one per line) must be rejected with a tag of the given prefix"""
    p = os.path.join(chk.wd, f"neg_{name}.ndjson")
    with open(p, "w") as f:
        for e in events:
            f.write(e if e.endswith("\n") else e + "\n")
    n, fails, _ = vlib.validate_trace(module, p, chk.wd, "neg_" + name, timeout=600)
    bad = set(x[0] for x in fails if str(x[2]).startswith(expect_prefix))
    missing = [i for i in range(1, len(events) + 1) if i not in bad]
    if missing:
        raise ToolError(f"negative control {name}: corrupted events {missing} were accepted")
    chk.cov["negative_controls_rejected"] += len(events)


def mc_io(chk):
    chk.mc("MC_IO", "MC_IO.cfg", workers=8, timeout=1200)
    # control: the deviation (absolute header / end positions) must violate the start-position clauses
    res = vlib.run_tlc("MC_IO", "MC_IO_absolute.cfg", chk.wd, "mc_io_absolute", workers=4, timeout=600)
    text = open(res["out_path"]).read()
    if "Invariant PrefixUntouched is violated" not in text and "Invariant Placement is violated" not in text:
        raise ToolError("MC_IO control: the 'absolute' variant does not violate the start-position invariants (model vacuous)")
    chk.cov["negative_controls_rejected"] += 1


def c08(chk):
    chk.mc("MC_Tree", "MC_Tree_thorough.cfg" if thorough(chk) else "MC_Tree.cfg", workers=12, timeout=3000)
    if thorough(chk):
        chk.mc("MC_Codec", "MC_Codec.cfg", workers=8, timeout=3000)
    stim2, n2 = gen_stimuli(chk, "MC_Hazards", "Gen_Tokens.cfg", "tokens", timeout=900)
    stim, n = gen_stimuli(chk, "MC_Hazards", "Gen_Hazards.cfg", "hazards", timeout=600)
    trace = drive(chk, "malformed", ["--stim", stim, "--stim2", stim2])
    need_stat(chk, "malformed_inputs", 1000)
    def classify(replay):
        e = replay["event"]
        bad = [o for o in e.get("outcomes", []) if o["kind"] not in ("ok", "err")]
        return {"class": e.get("class", "?").split("/c")[0] if e.get("class", "").startswith("hazard/") else e.get("class"),
                "call": bad[0]["call"] if bad else None, "kind": bad[0]["kind"] if bad else None}
    chk.validate("Trace_Malformed", trace, "malformed", scope=scope_of("C08"), parallel=8, timeout=3000, classify=classify)
    ev = first_event(trace, lambda o: o["ev"] == "Mal" and not o["skipped"] and len(o["outcomes"]) > 3 and "plain" in o)
    def c_panic(o):
        o["outcomes"][2]["kind"] = "panic"
    def c_abort(o):
        o["outcomes"][-1]["kind"] = "signal"
    neg_events(chk, "Trace_Malformed", [vlib.mutate_json_line(ev, c_panic), vlib.mutate_json_line(ev, c_abort)], "malformed", "C08")
    o = json.loads(ev)
    chk.sample({"class": o["class"], "len": o["len"], "outcomes": o["outcomes"][:6]})
    chk.assumptions += ["the worker process runs under an address-space limit of 16 GiB and a progress timeout of 20 s; smaller over-allocations are not flagged",
                        "inputs whose declared work exceeds 200000 tiles / directory visits (Malformed!Verdict = overbudget) are outside the claim and skipped",
                        "built with overflow-checks and debug-assertions on, so arithmetic overflow surfaces as a panic"]
    chk.cov["rule"] = ("one crafted archive per hazard class (TLC composes the hostile directory bytes) x 4 codecs for root-only classes; every "
                       "prefix and every single-byte substitution with {00,01,7f,80,ff} of 5 small valid archives; structure-aware random "
                       "mutations; every input through ~25 calls (header, directory, archive open full/partial, lookups, re-write, "
                       "read_directories, decompress_all, zxy, async twins) in a sandboxed worker")


def c13(chk):
    mc_io(chk)
    stim, n = gen_stimuli(chk, "MC_Sched", "Gen_Sched_thorough.cfg" if thorough(chk) else "Gen_Sched.cfg", "sched", timeout=900)
    trace = drive(chk, "sched", ["--stim", stim])
    need_stat(chk, "short_transfers_granted", 200)
    need_stat(chk, "pending_answers", 200)
    chk.validate("Trace_Stream", trace, "sched", scope=scope_of("C13"), parallel=4, timeout=3000)
    ev = first_event(trace, lambda o: o["ev"] == "Sched" and len(o["runs"]) > 3)
    def c_v(o):
        o["runs"][1]["vtok"] += 1000
    def c_o(o):
        o["runs"][2]["otok"] += 1000
    def c_r(o):
        o["runs"][0]["res"] = "err"
    neg_events(chk, "Trace_Stream", [vlib.mutate_json_line(ev, f) for f in (c_v, c_o, c_r)], "sched", "C13")
    o = json.loads(ev)
    chk.sample({"scenario": o["scenario"], "base": o["base"], "runs": o["runs"][:4]})
    chk.cov["rule"] = ("scenarios: header / directory / write_directories (fit + spill) / read_directories / archive write (memory, backed, "
                       "spill) / archive open (full, partial) / tile lookup x 4 codecs x sync/async; schedules: every composition of n <= 10 "
                       "(13 thorough) enumerated by TLC (strided in quick), fixed chunk sizes 1..127 for headers and 1..24 otherwise, seeded "
                       "random schedules; async runs add Pending patterns; result token and output bytes must equal the unfragmented baseline")


def c15(chk):
    mc_io(chk)
    trace = drive(chk, "faults")
    need_stat(chk, "fault_runs", 150)          # scenarios x at least a few operations (not tied to how many the library issues)
    def classify(replay):
        e = replay["event"]
        sc = e.get("scenario", "")
        bad = [r["k"] for r in e.get("runs", []) if r["res"] != "err"]
        return {"scenario_kind": sc.split("/")[0], "codec": sc.split("/")[1] if "/" in sc else "", "api": sc.split("/")[-1],
                "which": e.get("which"), "fault_points_from_end": sorted({e["n"] - k for k in bad})}
    chk.validate("Trace_Stream", trace, "faults", scope=scope_of("C15"), parallel=4, timeout=3000, classify=classify)
    ev = first_event(trace, lambda o: o["ev"] == "Fault" and len(o["runs"]) > 3 and all(r["res"] == "err" for r in o["runs"]))
    def c_ok(o):
        o["runs"][1]["res"] = "ok"
    def c_panic(o):
        o["runs"][0]["res"] = "panic"
    neg_events(chk, "Trace_Stream", [vlib.mutate_json_line(ev, f) for f in (c_ok, c_panic)], "faults", "C15")
    o = json.loads(ev)
    chk.sample({"scenario": o["scenario"], "which": o["which"], "n": o["n"], "runs": o["runs"][:5]})
    chk.cov["rule"] = ("for each scenario (as C13; input and output stream faulted separately) the fault-free run has N stream operations; for "
                       "every k < N (sampled for N > 400 in quick) the run in which operation k and all later ones fail must return Err")
    chk.cov["exhaustive"] = False


def c17(chk):
    mc_io(chk)
    trace = drive(chk, "crash")
    need_stat(chk, "crash_points", 30)
    need_stat(chk, "crash_scenarios_rebuilt_by_tlc", 4)
    chk.validate("Trace_Stream", trace, "crash", scope=scope_of("C17"), timeout=3000)
    ev = first_event(trace, lambda o: o["ev"] == "Crash" and len(o["runs"]) > 5)
    def c_open(o):
        o["runs"][2]["res"] = "ok"; o["runs"][2]["same"] = False
    def c_final(o):
        o["runs"][-1]["res"] = "err"
    neg_events(chk, "Trace_Stream", [vlib.mutate_json_line(ev, f) for f in (c_open, c_final)], "crash", "C17")
    # control on the rebuilt images: a wrong equality flag from the harness must be noticed by TLC
    ev_ops = first_event(trace, lambda o: o["ev"] == "Crash" and "ops" in o and len(o["runs"]) > 3)
    def c_same(o):
        o["runs"][1]["same"] = not o["runs"][1]["same"]
    neg_events(chk, "Trace_Stream", [vlib.mutate_json_line(ev_ops, c_same)], "crash_same", "TRANSPORT")
    o = json.loads(ev)
    chk.sample({"scenario": o["scenario"], "n": o["n"], "write_ops": o["write_ops"], "seek_ops": o["seek_ops"], "runs": o["runs"][:4] + o["runs"][-2:]})
    chk.assumptions += ["each write call is atomic and the stream is fresh (as the property's quantifier states)",
                        "image equality is computed by the harness by byte comparison; for the archives of at most 2500 bytes the recorded operations are in the trace and TLC rebuilds every prefix image itself and checks the flags"]
    chk.cov["rule"] = ("archive writes (0 / 7 / 4300 tiles incl. leaf spill, from memory and from a backed archive, 4 codecs, sync/async) into a "
                       "recording stream; for every k in 0..N (sampled for N > 300 in quick) the image after the first k operations is opened "
                       "with from_bytes; an image that opens must equal the final image")


def c18(chk):
    mc_io(chk)
    trace = drive(chk, "startpos")
    need_stat(chk, "startpos_runs_p_gt_0", 20)
    chk.validate("Trace_Archive", trace, "startpos", scope=scope_of("C18"), parallel=4, timeout=3000)
    ev = first_event(trace, lambda o: o["ev"] == "SaveAt" and o["res"] == "ok" and o["p"] != [0, 0, 0, 0] and "file" in o and len(o["tiles"]) >= 2)
    def c_prefix(o):
        o["prefix_intact"] = False
    def c_pos(o):
        o["final_pos"][3] = (o["final_pos"][3] + 1) % 65536
    def c_tile(o):
        o["tiles"][0]["tok"] += 1000
    def c_hdr(o):
        o["file"]["hdr"][8] = (o["file"]["hdr"][8] + 1) % 256
    try:
        neg_events(chk, "Trace_Archive", [vlib.mutate_json_line(ev, f) for f in (c_prefix, c_pos, c_tile, c_hdr)], "startpos", "C18")
    except ToolError:
        raise
    o = json.loads(ev)
    chk.sample({"p": o["p"], "api": o["api"], "comp": o["comp"], "final_pos": o["final_pos"], "stream_len": o["stream_len"], "n_tiles": len(o["tiles"])})
    chk.cov["rule"] = ("to_writer / to_async_writer started at P in {0,1,10,127,4096,random} on streams prefilled beyond P or exactly P long, "
                       "archives of 0 / 7 / 4300 (leaf spill) tiles: bytes before P intact, no write below P, Archive!WellFormed on the stream "
                       "contents from P (all header offsets relative to P), addressed content = written content, final position = archive end")


def c20(chk):
    mc_io(chk)
    stim, n = gen_stimuli(chk, "MC_Foreign", "Gen_Foreign.cfg", "foreign", timeout=600)
    trace = drive(chk, "reads", ["--stim", stim])
    need_stat(chk, "read_traces", 40)
    chk.validate("Trace_Archive", trace, "reads", scope=scope_of("C20"), parallel=8, cuts=True, timeout=3000)
    seg = segment_with_file(trace, lambda o: o["ev"] == "OpenReads" and o["res"] == "ok" and len(o["reads"]) >= 2)
    f = json.loads(seg[0])["file"]
    data_off = f["hdr"][56:64]
    def c_data(o):
        # a read inside the tile-data section
        v = int.from_bytes(bytes(data_off), "little")
        o["reads"].append([[(v >> 48) & 0xffff, (v >> 32) & 0xffff, (v >> 16) & 0xffff, v & 0xffff], 1])
    neg_segment(chk, seg, c_data, "open_reads_data", "C20")
    seg = segment_with_file(trace, lambda o: o["ev"] == "TileReads" and any(c["res"] == "some" for c in o["cases"]))
    def c_over(o):
        for c in o["cases"]:
            if c["res"] == "some":
                c["reads"][-1][1] += 1; return
    neg_segment(chk, seg, c_over, "tile_overread", "C20")
    def c_absent(o):
        for c in o["cases"]:
            if c["res"] == "none":
                c["reads"] = [[[0, 0, 0, 200], 4]]; return
    neg_segment(chk, seg, c_absent, "absent_reads", "C20")
    o = json.loads(seg[1])
    chk.sample({"ev": o["ev"], "api": o["api"], "cases": o["cases"][:3]})
    chk.cov["rule"] = ("library-written (4 codecs, with and without leaf directories) and foreign layouts (permuted sections, gaps, nested leaves) "
                       "and the stamen / firenze fixtures, opened full and range-filtered, sync and async, through a recording stream: every read "
                       "of the open lies in the header, metadata, root or leaf section; every lookup reads exactly the tile's range; absent "
                       "IDs read nothing")


def c14(chk):
    chk.mc("MC_Comp", "MC_Comp.cfg", workers=4, timeout=600)
    trace = drive(chk, "compress")
    need_stat(chk, "compression_cases", 40)
    # second, unrelated gzip implementation: CPython's zlib decodes the streams the library emitted
    import gzip, zlib
    gz_dir = os.path.join(chk.wd, "gz")
    verdicts = {}
    for name in sorted(os.listdir(gz_dir)) if os.path.isdir(gz_dir) else []:
        if name.endswith(".gz"):
            n = int(name[:-3])
            z = open(os.path.join(gz_dir, name), "rb").read()
            want = open(os.path.join(gz_dir, f"{n}.in"), "rb").read()
            try:
                # wbits 31: exactly one gzip member, trailing garbage is an error
                d = zlib.decompressobj(31)
                got = d.decompress(z) + d.flush()
                verdicts[n] = "same" if got == want and d.eof and not d.unused_data else "differs"
            except Exception:
                verdicts[n] = "error"
    lines = []
    for line in open(trace):
        o = json.loads(line)
        if o.get("ev") == "Comp":
            for d in o["streams"]:
                if "gz_n" in d:
                    d["py"] = verdicts.get(d["gz_n"], "missing")
        lines.append(json.dumps(o) + "\n")
    with open(trace, "w") as f:
        f.writelines(lines)
    chk.cov["gzip_streams_decoded_by_cpython_zlib"] = len(verdicts)
    if len(verdicts) < 10:
        raise ToolError("second gzip decoder saw fewer than 10 streams")
    chk.validate("Trace_Stream", trace, "compress", scope=scope_of("C14"), timeout=1200)
    ev = first_event(trace, lambda o: o["ev"] == "Comp" and o["comp"] == 2 and o["in_len"] > 0 and len(o["streams"]) >= 2)
    def c_up(o):
        o["streams"][0]["up"]["tok"] += 1000
    def c_lib(o):
        o["streams"][1]["decompress_all"]["res"] = "err"
    def c_py(o):
        for d in o["streams"]:
            if "py" in d:
                d["py"] = "differs"; return
    ev0 = first_event(trace, lambda o: o["ev"] == "Comp" and o["comp"] == 0)
    def c_unknown(o):
        o["factories"][0]["res"] = "ok"
    neg_events(chk, "Trace_Stream", [vlib.mutate_json_line(ev, c_up), vlib.mutate_json_line(ev, c_lib), vlib.mutate_json_line(ev, c_py),
                                    vlib.mutate_json_line(ev0, c_unknown)], "compress", "C14")
    o = json.loads(ev)
    chk.sample({"input": o["input"], "comp": o["comp"], "in_len": o["in_len"], "writes": o["writes"][:3], "streams": o["streams"][:1]})
    chk.assumptions += ["losslessness of DEFLATE / Brotli / Zstandard themselves is the upstream codecs' property (uninterpreted in the spec)",
                        "the interpretation of Dec is supplied by the upstream decoder crates called directly and, for gzip, by CPython's zlib"]
    chk.cov["rule"] = ("inputs: empty, 1 byte, 2..6 bytes, compressible, incompressible, data.json, multi-megabyte x {unknown, none, gzip, brotli, "
                       "zstd}; one-shot helpers and streaming writers (sync/async) under every split of inputs <= 6 (12) bytes and fixed / random "
                       "chunkings of larger ones; every emitted stream is decoded by the upstream crate, decompress_all, the streaming readers "
                       "under fragmenting read schedules (sync/async with Pending) and, for gzip, CPython zlib; fixtures .gz/.br/.zst")


def c12(chk):
    mc_store(chk)
    chk.mc("MC_Codec", "MC_Codec.cfg", workers=8, timeout=3000)
    stim, n = gen_stimuli(chk, "MC_Foreign", "Gen_Foreign.cfg", "foreign", timeout=600)
    trace = drive(chk, "twin", ["--stim", stim])
    need_stat(chk, "twin_cases", 300)
    chk.validate("Trace_Stream", trace, "twin", scope=scope_of("C12"), parallel=4, timeout=3000)
    ev = first_event(trace, lambda o: o["ev"] == "Twin" and o["what"] == "archive_write" and o["none_codec"] and o["n_tiles"] >= 2)
    def c_view(o):
        o["views"][1]["tiles"][0][1] += 1000
    def c_bytes(o):
        o["bytes_async"] += 1000
    ev2 = first_event(trace, lambda o: o["ev"] == "Twin" and o["what"] == "directory_read" and len(o["views"]) >= 2 and o["views"][0].get("entries"))
    def c_dir(o):
        o["views"][1]["entries"][0]["len"][3] = (o["views"][1]["entries"][0]["len"][3] % 65535) + 1
    ev3 = first_event(trace, lambda o: o["ev"] == "Twin" and o["what"] == "header" and o["views"][0]["res"] == "ok")
    def c_hdr(o):
        o["views"][1]["res"] = "err"
    neg_events(chk, "Trace_Stream", [vlib.mutate_json_line(ev, c_view), vlib.mutate_json_line(ev, c_bytes), vlib.mutate_json_line(ev2, c_dir),
                                    vlib.mutate_json_line(ev3, c_hdr)], "twin", "C12")
    o = json.loads(ev3)
    chk.sample(o)
    chk.cov["rule"] = ("the same logical archives written through the sync and the async value (0..4300/9000 tiles, 4 codecs) and each read back by both "
                       "readers (4 views equal; bytes identical for compression none); range-filtered opens; foreign layouts and fixtures through "
                       "both readers; read_directories twins; directories (random, regular, empty) written and parsed by both APIs on each other's "
                       "output; write_directories twins; headers (valid, truncated, invalid codes) in both directions. In addition every other "
                       "check of this suite drives sync and async variants against the same specification action.")


REGISTRY = {"C01": c01, "C02": c02, "C03": c03, "C04": c04, "C06": c06, "C11": c11, "C19": c19, "C05": c05, "C07": c07, "C08": c08, "C09": c09, "C12": c12, "C13": c13, "C14": c14, "C15": c15, "C17": c17, "C18": c18, "C20": c20, "C10": c10, "C16": c16}


def replay(pid, path):
    """Re-execute the recorded scenario on the real code: regenerate the stimuli with TLC, re-run the
    driver with the recorded seed against the current /repo build, validate the fresh trace, and report
    whether the recorded deviation (same event kind and clause tag) still occurs."""
    r = json.load(open(path))
    vlib.build_harness()
    chk = vlib.Check(pid + "_replay", r.get("tier", "quick"), int(r.get("seed", 1)))
    d = r.get("drive")
    if not d:
        # older replay files: re-validate the stored event only
        p = os.path.join(chk.wd, "event.ndjson")
        with open(p, "w") as f:
            f.write(json.dumps(r["event"]) + "\n")
        n, fails, _ = vlib.validate_trace(r["module"], p, chk.wd, "replay")
        hit = [x for x in fails if not str(x[2]).startswith(("INFO", "STIMULUS", "TRANSPORT"))]
        if hit:
            log(f"VIOLATION property={pid} replay={path}   # {hit[0][1:]} (stored event re-validated)")
            return 1
        log("stored event accepted by the specification")
        return 0
    extra = list(d["extra"])
    if d.get("gen"):
        g = d["gen"]
        stim, _ = gen_stimuli(chk, g["module"], g["cfg"], g["name"])
        extra[extra.index("--stim") + 1] = stim
    trace = os.path.join(chk.wd, d["name"] + ".ndjson")
    pmv(["drive", d["family"], "--seed", r["seed"], "--tier", r.get("tier", "quick"), "--out", trace] + extra)
    vlib.lint_trace(trace)
    n, fails, _ = vlib.validate_trace(r["module"], trace, chk.wd, "replay", timeout=3000, parallel=6, cuts=True)
    same = [x for x in fails if x[1] == r["ev"] and x[2] == r["tag"]]
    if same:
        log(f"VIOLATION property={pid} replay={path}   # re-executed: {r['ev']}: {r['tag']} at event {same[0][0]} ({len(same)} events)")
        return 1
    log(f"re-executed {n} events with seed {r['seed']}: the recorded deviation {r['ev']}: {r['tag']} does not occur any more")
    return 0
