"""Per-property pipelines.  Each takes a vlib.Check and fills in coverage / violations."""
import json, os, random
import vlib
from vlib import log, pmv, ToolError, SPEC


def thorough(chk):
    return chk.tier == "thorough"


def gen_stimuli(chk, module, cfg, name, timeout=900):
    """Run a generator instance: TLC prints one <<"STIM", json>> line per case."""
    res = vlib.run_tlc(module, cfg, chk.wd, "gen_" + name, workers=1, timeout=timeout)
    vlib.tlc_ok(res, "generator " + cfg)
    out = os.path.join(chk.wd, f"stim_{name}.ndjson")
    n = 0
    with open(out, "w") as f, open(res["out_path"]) as src:
        for line in src:
            if line.startswith('<<"STIM", "'):
                body = line.rstrip("\n")[len('<<"STIM", "'):-len('">>')]
                body = body.replace('\\"', '"').replace("\\\\", "\\")
                json.loads(body)  # must be JSON
                f.write(body + "\n")
                n += 1
    if n == 0:
        raise ToolError(f"generator {cfg} produced no stimuli")
    chk.cov.setdefault("generated_stimuli", 0)
    chk.cov["generated_stimuli"] += n
    chk.cov["mc"].append({"instance": cfg, "distinct_states": res["distinct"],
                          "states_generated": res["generated"], "wall_s": round(res["wall"], 1), "role": "generator"})
    return out, n


def first_event(trace, pred):
    with open(trace) as f:
        for line in f:
            o = json.loads(line)
            if pred(o):
                return line
    raise ToolError("no event for negative control in " + trace)


# ------------------------------------------------------------------------------------------
def c05(chk):
    t = "thorough" if thorough(chk) else "quick"
    chk.mc("MC_Codec", "MC_Codec_thorough.cfg" if thorough(chk) else "MC_Codec.cfg", workers=8, timeout=3000)
    stim, n = gen_stimuli(chk, "MC_Codec", "Gen_Dir_thorough.cfg" if thorough(chk) else "Gen_Dir.cfg", "dir", timeout=3000)
    trace = os.path.join(chk.wd, "dir.ndjson")
    pmv(["drive", "dir", "--seed", chk.seed, "--tier", t, "--stim", stim, "--no-zero", "--out", trace])
    chk.validate("Trace_Codec", trace, "dir", timeout=3000, parallel=6)
    # negative controls: one byte of a written directory, one parsed field
    def corrupt_blob(o):
        o["blobs"][0][-1] = (o["blobs"][0][-1] + 1) % 128
    def corrupt_list(o):
        o["lists"][0][0]["len"][3] = (o["lists"][0][0]["len"][3] + 1) % 65536 or 1
    def corrupt_res(o):
        o["dec"][0]["res"] = "err"
    ev = first_event(trace, lambda o: o["ev"] == "Dir" and len(o["entries"]) >= 2 and o["lists"])
    chk.neg("Trace_Codec", [vlib.mutate_json_line(ev, corrupt_blob), vlib.mutate_json_line(ev, corrupt_list),
                            vlib.mutate_json_line(ev, corrupt_res)], "dir")
    chk.sample(json.loads(first_event(trace, lambda o: o["ev"] == "Dir" and 1 <= len(o["entries"]) <= 2)))
    chk.assumptions += ["upstream flate2/brotli/zstd decoders are used to obtain the uncompressed serialisation",
                        "TLC 64-bit arithmetic is done on 16-bit limbs (U64.tla)"]
    chk.cov["rule"] = ("cases = TLC-enumerated valid directories of <=3 entries over boundary sets (Gen_Dir) + seeded random "
                       "valid directories up to 5000 (quick) / 100000 (thorough) entries x 4 codecs x sync/async; "
                       "each event is judged by Directory!EncDir / ValidDir evaluated by TLC")


def c09(chk):
    t = "thorough" if thorough(chk) else "quick"
    chk.mc("MC_Codec", "MC_Codec_thorough.cfg" if thorough(chk) else "MC_Codec.cfg", workers=8, timeout=3000)
    trace = os.path.join(chk.wd, "hdr.ndjson")
    pmv(["drive", "hdr", "--seed", chk.seed, "--tier", t, "--out", trace])
    chk.validate("Trace_Codec", trace, "hdr", timeout=3000, parallel=4)
    ev = first_event(trace, lambda o: o["ev"] == "Hdr" and len(o["bytes"]) >= 127 and all(x["res"] == "ok" for x in o["obs"]))
    def c_field(o):
        o["obs"][0]["h"]["min_lat"] += 1
    def c_pos(o):
        o["obs"][1]["pos"] = 128
    def c_re(o):
        o["obs"][2]["re_sync"][50] ^= 1
    ev2 = first_event(trace, lambda o: o["ev"] == "HdrEnc")
    def c_bytes(o):
        o["obs"][0]["bytes"][100] ^= 1
    ev3 = first_event(trace, lambda o: o["ev"] == "Coords")
    def c_coord(o):
        o["cases"][0]["stored"] += 2
    ev4 = first_event(trace, lambda o: o["ev"] == "Hdr" and len(o["bytes"]) == 126)
    def c_short(o):
        o["obs"][0]["res"] = "ok"
    chk.neg("Trace_Codec", [vlib.mutate_json_line(ev, c_field), vlib.mutate_json_line(ev, c_pos),
                            vlib.mutate_json_line(ev, c_re), vlib.mutate_json_line(ev2, c_bytes),
                            vlib.mutate_json_line(ev3, c_coord), vlib.mutate_json_line(ev4, c_short)], "hdr")
    chk.sample(json.loads(ev2))
    chk.assumptions += ["degree values enter the spec as exact (floor, cmp) pairs computed by rational arithmetic in the harness; "
                        "ties within a relative 2^-20 band accept either neighbour"]
    chk.cov["rule"] = ("every truncation 0..126, every code 0..255 at the enum bytes, magic/version corruptions, random and boundary "
                       "headers, a strided sweep of stored coordinate values through all six fields, sampled degree values incl. "
                       "half-step ties; judged by Header!DecHeader / EncHeader / NearestOK in TLC")


def c07(chk):
    t = "thorough" if thorough(chk) else "quick"
    chk.mc("MC_Hilbert", "MC_Hilbert_thorough.cfg" if thorough(chk) else "MC_Hilbert.cfg", workers=12, timeout=3000)
    trace = os.path.join(chk.wd, "hilbert.ndjson")
    zmax = 10 if thorough(chk) else 8
    pmv(["drive", "hilbert", "--seed", chk.seed, "--tier", t, "--zmax", zmax, "--out", trace])
    chk.validate("Trace_Hilbert", trace, "hilbert", timeout=3000, parallel=8)
    ev = first_event(trace, lambda o: o["ev"] == "Row" and o["z"] == 3)
    def c_id(o):
        o["ids"][2][3] ^= 1
    ev2 = first_event(trace, lambda o: o["ev"] == "Inv")
    def c_inv(o):
        o["cases"][7]["x"][3] ^= 1
    ev3 = first_event(trace, lambda o: o["ev"] == "Lookup")
    def c_look(o):
        for cse in o["cases"]:
            if cse["res"] == "some":
                cse["res"] = "none"; break
    chk.neg("Trace_Hilbert", [vlib.mutate_json_line(ev, c_id), vlib.mutate_json_line(ev2, c_inv),
                              vlib.mutate_json_line(ev3, c_look)], "hilbert")
    chk.sample(json.loads(ev))
    chk.cov["rule"] = (f"tile_id for every (z,x,y) with z<={zmax}, zxy for every ID of the low zooms, boundary/random points at every zoom "
                       "0..31, IDs at every zoom-block edge and beyond zoom 31, coordinate lookups inside and outside the grid against "
                       "archives containing the aliased tile; every value recomputed by Hilbert.tla in TLC")
    chk.cov["exhaustive"] = True


REGISTRY = {"C05": c05, "C07": c07, "C09": c09}


def replay(pid, path):
    """Re-validate the single event stored in a replay file."""
    r = json.load(open(path))
    wd = vlib.workdir(pid + "_replay")
    p = os.path.join(wd, "event.ndjson")
    with open(p, "w") as f:
        f.write(json.dumps(r["event"]) + "\n")
    n, fails, _ = vlib.validate_trace(r["module"], p, wd, "replay")
    if fails:
        log(f"VIOLATION property={pid} replay={path}   # {fails[0]}")
        return 1
    log("replayed event accepted by the specification")
    return 0
